"""Process boot: make sure the code under test is imported from the *current working tree*
of the repository ($VERIF_REPO, default /repo), give numba a cache directory keyed by a hash
of every source file (numba's own cache misses changes in callee files), and make hypothesis
importable (falling back to an offline wheelhouse install into /verif/.deps).

Must be imported before anything from ocean_science_utilities or numba is imported.
"""
import hashlib
import os
import shutil
import subprocess
import sys

VERIF_ROOT = os.path.dirname(os.path.dirname(os.path.abspath(__file__)))
REPO = os.environ.get("VERIF_REPO", "/repo")
SRC = os.path.join(REPO, "src")
DEPS = os.path.join(VERIF_ROOT, ".deps")
WHEELS = "/opt/veriftools/wheels"
GUARD = "OCEAN_SCIENCE_UTILITIES_VERIF"

_booted = False


def source_hash() -> str:
    h = hashlib.sha256()
    pkg = os.path.join(SRC, "ocean_science_utilities")
    for root, dirs, files in os.walk(pkg):
        dirs.sort()
        dirs[:] = [d for d in dirs if d != "__pycache__"]
        for f in sorted(files):
            if f.endswith(".py"):
                p = os.path.join(root, f)
                h.update(os.path.relpath(p, pkg).encode())
                with open(p, "rb") as fh:
                    h.update(fh.read())
    h.update(sys.version.encode())
    return h.hexdigest()[:16]


def _ensure_numba_cache() -> str:
    base = os.environ.get("VK_NUMBA_CACHE_BASE") or os.path.join(VERIF_ROOT, ".cache", "numba")
    os.makedirs(base, exist_ok=True)
    key = source_hash()
    mine = os.path.join(base, key)
    # keep at most 3 other cache dirs (disk); newest kept
    try:
        others = [d for d in os.listdir(base) if d != key]
        others.sort(key=lambda d: os.path.getmtime(os.path.join(base, d)), reverse=True)
        for d in others[3:]:
            shutil.rmtree(os.path.join(base, d), ignore_errors=True)
    except OSError:
        pass
    os.makedirs(mine, exist_ok=True)
    try:
        os.utime(mine, None)
    except OSError:
        pass
    return mine


def ensure_package(name: str, target: str = DEPS) -> None:
    """Import `name`, installing it offline from the wheelhouse into .deps if missing."""
    try:
        __import__(name)
        return
    except ImportError:
        pass
    if target not in sys.path:
        sys.path.append(target)
    try:
        __import__(name)
        return
    except ImportError:
        pass
    os.makedirs(target, exist_ok=True)
    subprocess.run(
        [sys.executable, "-m", "pip", "install", "--quiet", "--no-index",
         "--find-links", WHEELS, "--target", target, name],
        check=True, stdout=subprocess.DEVNULL, stderr=subprocess.DEVNULL,
        env={**os.environ, "PIP_NO_INDEX": "1"},
    )
    import importlib
    importlib.invalidate_caches()
    __import__(name)


def boot() -> None:
    global _booted
    if _booted:
        return
    _booted = True
    os.environ.setdefault("PYTHONHASHSEED", "0")
    os.environ[GUARD] = "1"
    os.environ.setdefault("TQDM_DISABLE", "1")
    os.environ["NUMBA_CACHE_DIR"] = _ensure_numba_cache()
    if os.environ.get("VK_SHARD") is not None:
        os.environ.setdefault("NUMBA_NUM_THREADS", "1")
        os.environ.setdefault("OMP_NUM_THREADS", "1")
        os.environ.setdefault("OPENBLAS_NUM_THREADS", "1")
        os.environ.setdefault("MKL_NUM_THREADS", "1")
    if SRC in sys.path:
        sys.path.remove(SRC)
    sys.path.insert(0, SRC)
    import warnings
    warnings.filterwarnings("ignore")
    import ocean_science_utilities  # noqa
    paths = [os.path.realpath(p) for p in ocean_science_utilities.__path__]
    want = os.path.realpath(os.path.join(SRC, "ocean_science_utilities"))
    if paths[0] != want:
        raise RuntimeError(
            f"ocean_science_utilities resolves to {paths}, expected {want}"
        )
    ensure_package("hypothesis")
