"""Independent reference computations for spectra (plain numpy on the raw case arrays)."""
import numpy as np


def dir_steps(d):
    """Wrapped forward differences of a direction grid (degrees); sums to 360."""
    d = np.asarray(d, dtype=float)
    nxt = np.roll(d, -1)
    return np.mod(nxt - d + 180.0, 360.0) - 180.0


def e_of_2d(E, d):
    """e(f) = sum_theta E * dtheta with NaN counted as zero. E: (..., nf, nd)."""
    w = dir_steps(d)
    return np.nansum(E * w, axis=-1)


def moments_2d(E, d):
    """(e, a1, b1, a2, b2) from a 2D density; NaN where e == 0."""
    w = dir_steps(d)
    th = np.deg2rad(np.asarray(d, dtype=float))
    e = np.nansum(E * w, axis=-1)
    out = [e]
    with np.errstate(all="ignore"):
        for fn, k in ((np.cos, 1), (np.sin, 1), (np.cos, 2), (np.sin, 2)):
            out.append(np.nansum(E * fn(k * th) * w, axis=-1) / e)
    return out


def band_mask(f, fmin, fmax):
    f = np.asarray(f)
    return (f >= fmin) & (f < fmax)


def trapz_terms(f, y):
    """Terms of the composite trapezoid over consecutive points (1-D f, y[..., nf])."""
    if len(f) < 2:
        return np.zeros(y.shape[:-1] + (0,))
    df = np.diff(f)
    return 0.5 * (y[..., 1:] + y[..., :-1]) * df


def moment(f, e, power, fmin=0.0, fmax=np.inf):
    """n-th frequency moment over the half-open band, NaN counted as zero.
    Returns (value, sum of |terms|)."""
    f = np.asarray(f, dtype=float)
    m = band_mask(f, fmin, fmax)
    fb = f[m]
    eb = np.nan_to_num(np.asarray(e, dtype=float)[..., m], nan=0.0)
    with np.errstate(all="ignore"):
        y = eb * fb ** power
    y = np.nan_to_num(y, nan=0.0)
    t = trapz_terms(fb, y)
    return t.sum(axis=-1), np.abs(t).sum(axis=-1)


def weighted_mean(f, prop, e, fmin=0.0, fmax=np.inf):
    """trapz(prop*e)/m0 over the band with NaN in prop -> 0 (as documented) and NaN in e -> 0
    for m0. Returns (value, abs-sum of numerator terms, m0)."""
    f = np.asarray(f, dtype=float)
    m = band_mask(f, fmin, fmax)
    fb = f[m]
    pb = np.nan_to_num(np.asarray(prop, dtype=float)[..., m], nan=0.0)
    eb = np.asarray(e, dtype=float)[..., m]
    t = trapz_terms(fb, pb * eb)
    m0, _ = moment(f, e, 0, fmin, fmax)
    with np.errstate(all="ignore"):
        return t.sum(axis=-1) / m0, np.abs(t).sum(axis=-1), m0


def close(got, ref, rel=1e-12, abs_=0.0, scale=None):
    """Elementwise closeness with NaN==NaN and inf==inf. Returns boolean array."""
    got = np.asarray(got, dtype=float)
    ref = np.asarray(ref, dtype=float)
    sc = np.abs(ref) if scale is None else np.asarray(scale, dtype=float)
    with np.errstate(all="ignore"):
        ok = np.abs(got - ref) <= rel * sc + abs_
    both_nan = np.isnan(got) & np.isnan(ref)
    same_inf = np.isinf(got) & np.isinf(ref) & (np.sign(got) == np.sign(ref))
    return ok | both_nan | same_inf


def wrap180(x):
    return np.mod(np.asarray(x, dtype=float) + 180.0, 360.0) - 180.0
