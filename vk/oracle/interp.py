"""Independent reference for 1-D piecewise-linear / nearest interpolation along one axis."""
import numpy as np


def bracket(xp, x):
    """For a strictly monotone grid xp (ascending or descending; numeric or datetime64) and a
    target x: (i0, i1, t) with value = (1-t) v[i0] + t v[i1], or None when x is outside the grid.
    Node targets return t == 0 with i0 the node."""
    n = len(xp)
    asc = xp[-1] > xp[0]
    lo, hi = (xp[0], xp[-1]) if asc else (xp[-1], xp[0])
    if x < lo or x > hi:
        return None
    for i in range(n):
        if x == xp[i]:
            return i, i, 0.0
    for i in range(n - 1):
        a, b = xp[i], xp[i + 1]
        if (a < x < b) if asc else (b < x < a):
            t = (x - a) / (b - a)
            return i, i + 1, float(t)
    raise AssertionError("unreachable")


def interp_axis(xp, data, axis, targets, nearest=False):
    """Returns (nodewise, elementwise, tie_mask) arrays with `axis` replaced by len(targets).
    nodewise: a neighbour is missing if ANY element of its slice is NaN; elementwise: per element.
    Rule: valid weight W of non-missing neighbours; result = sum(w v)/W if W > 1/2 else NaN.
    tie_mask[j] is True when nearest-neighbour target j sits exactly half way (either node ok)."""
    data = np.moveaxis(np.asarray(data, dtype=float), axis, 0)
    out_shape = (len(targets),) + data.shape[1:]
    node = np.full(out_shape, np.nan)
    elem = np.full(out_shape, np.nan)
    alt = np.full(out_shape, np.nan)      # the other admissible answer for nearest ties
    ties = np.zeros(len(targets), dtype=bool)
    for j, x in enumerate(targets):
        br = bracket(xp, x)
        if br is None:
            continue
        i0, i1, t = br
        if nearest and i0 != i1:
            if t == 0.5:
                ties[j] = True
            t_alt = 1.0 - round(t) if t == 0.5 else None
            t = float(np.rint(t))
        else:
            t_alt = None
        for arr, mode in ((node, "node"), (elem, "elem")):
            arr[j] = _combine(data[i0], data[i1], t, mode)
        if t_alt is not None:
            alt[j] = _combine(data[i0], data[i1], t_alt, "node")
        else:
            alt[j] = node[j]
    mv = lambda a: np.moveaxis(a, 0, axis)
    return mv(node), mv(elem), ties, mv(alt)


def _combine(v0, v1, t, mode):
    w0, w1 = 1.0 - t, t
    if mode == "node":
        m0 = not np.isnan(v0).any()
        m1 = not np.isnan(v1).any()
        m0 = np.full(np.shape(v0), m0)
        m1 = np.full(np.shape(v1), m1)
    else:
        m0 = ~np.isnan(v0)
        m1 = ~np.isnan(v1)
    m0 = m0 & (w0 > 0)
    m1 = m1 & (w1 > 0)
    W = w0 * m0 + w1 * m1
    s = w0 * np.where(m0, v0, 0.0) + w1 * np.where(m1, v1, 0.0)
    with np.errstate(all="ignore"):
        return np.where(W > 0.5, s / W, np.nan)
