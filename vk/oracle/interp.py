"""Independent reference for 1-D piecewise-linear / nearest interpolation along one axis."""
import numpy as np


def bracket(xp, x):
    """For a strictly monotone grid xp (ascending or descending; numeric or datetime64) and a
    target x: (i0, i1, t) with value = (1-t) v[i0] + t v[i1], or None when x is outside the grid.
    Node targets return t == 0 with i0 the node."""
    n = len(xp)
    asc = xp[-1] > xp[0]
    lo, hi = (xp[0], xp[-1]) if asc else (xp[-1], xp[0])
    if x < lo or x > hi:
        return None
    for i in range(n):
        if x == xp[i]:
            return i, i, 0.0
    for i in range(n - 1):
        a, b = xp[i], xp[i + 1]
        if (a < x < b) if asc else (b < x < a):
            t = (x - a) / (b - a)
            return i, i + 1, float(t)
    raise AssertionError("unreachable")


def _half_status(xp, x, i0, i1, t):
    """(near_half, exactly_half): whether the weight of the bracketing pair is within rounding of 1/2,
    and whether it is 1/2 in exact rational arithmetic on the given (float or integer) values."""
    from fractions import Fraction
    if i0 == i1 or abs(t - 0.5) >= 1e-12:
        return False, False
    try:
        a, b, xx = Fraction(xp[i0].item() if hasattr(xp[i0], "item") else xp[i0]), \
            Fraction(xp[i1].item() if hasattr(xp[i1], "item") else xp[i1]), Fraction(x)
        exact = (xx - a) * 2 == (b - a)
        # "exactly one half" is only decidable by the implementation when its own arithmetic is exact
        # whatever the evaluation order (it flips descending grids: x0 - x): require every value involved
        # to be a small dyadic rational (integers, times in seconds, halves ...)
        x0 = Fraction(xp[0].item() if hasattr(xp[0], "item") else xp[0])
        for v in (a, b, xx, x0):
            if (v * 1024).denominator != 1 or abs(v) > 2 ** 40:
                exact = False
    except (TypeError, ValueError):
        exact = t == 0.5
    return True, bool(exact)


def interp_axis(xp, data, axis, targets, nearest=False):
    """Returns (nodewise, elementwise, ambiguous, alts): arrays with `axis` replaced by len(targets).
    nodewise: a neighbour is missing if ANY element of its slice is NaN; elementwise: per element.
    Rule: valid weight W of non-missing neighbours; result = sum(w v)/W if W > 1/2 else NaN.
    ambiguous[j] is True when the admissible answer for target j is not unique because the weight is
    within rounding of one half: a nearest-neighbour target half way (either node may be chosen), or a
    linear target whose weight is within 1e-12 of - but, in exact rational arithmetic, not equal to -
    one half (equally valid floating-point evaluations of the weight fall on either side of the
    threshold). `alts` is a list of arrays holding every admissible answer for such targets (equal to
    `nodewise` elsewhere). A weight of exactly one half is NOT ambiguous in linear mode: the valid
    weight does not exceed one half, the result must be missing."""
    data = np.moveaxis(np.asarray(data, dtype=float), axis, 0)
    out_shape = (len(targets),) + data.shape[1:]
    node = np.full(out_shape, np.nan)
    elem = np.full(out_shape, np.nan)
    alts = [np.full(out_shape, np.nan) for _ in range(4)]
    ties = np.zeros(len(targets), dtype=bool)
    for j, x in enumerate(targets):
        br = bracket(xp, x)
        if br is None:
            continue
        i0, i1, t = br
        near, exact = _half_status(xp, x, i0, i1, t)
        cands = None
        if nearest and i0 != i1:
            if near:
                ties[j] = True
                cands = [(0.0, "node"), (1.0, "node"), (0.0, "elem"), (1.0, "elem")]
            t = float(np.rint(t))
        elif near and not exact:
            ties[j] = True
            cands = [(0.5 - 1e-13, "node"), (0.5 + 1e-13, "node"), (0.5 - 1e-13, "elem"), (0.5 + 1e-13, "elem")]
        node[j] = _combine(data[i0], data[i1], t, "node")
        elem[j] = _combine(data[i0], data[i1], t, "elem")
        for a, (tt, mode) in zip(alts, cands or [(t, "node")] * 4):
            a[j] = _combine(data[i0], data[i1], tt, mode)
    mv = lambda a: np.moveaxis(a, 0, axis)
    return mv(node), mv(elem), ties, [mv(a) for a in alts]


def _combine(v0, v1, t, mode):
    w0, w1 = 1.0 - t, t
    if mode == "node":
        m0 = not np.isnan(v0).any()
        m1 = not np.isnan(v1).any()
        m0 = np.full(np.shape(v0), m0)
        m1 = np.full(np.shape(v1), m1)
    else:
        m0 = ~np.isnan(v0)
        m1 = ~np.isnan(v1)
    m0 = m0 & (w0 > 0)
    m1 = m1 & (w1 > 0)
    W = w0 * m0 + w1 * m1
    s = w0 * np.where(m0, v0, 0.0) + w1 * np.where(m1, v1, 0.0)
    with np.errstate(all="ignore"):
        return np.where(W > 0.5, s / W, np.nan)
