"""Hand-written mutants (file relative to src/ocean_science_utilities, old -> new; `old` must
occur exactly once). Each is a realistic slip that keeps the code importable."""
MUTANTS = [
    # ---- C07
    ("C07", "one_newton_step", "wavetheory/lineardispersion.py",
     "for ii in range(0, maximum_number_of_iterations):", "for ii in range(0, 1):"),
    ("C07", "deriv_switch_kd_0.5", "wavetheory/lineardispersion.py",
     "        error_derivative_to_wavenumber = np.where(\n            kd > 5,",
     "        error_derivative_to_wavenumber = np.where(\n            kd > 0.5,"),
    ("C07", "convergence_any", "wavetheory/lineardispersion.py",
     "if np.all(relative_absolute_error < tolerance):", "if np.any(relative_absolute_error < tolerance):"),
    ("C07", "depth_nan_not_inf", "wavespectra/spectrum.py",
     "return xarray.where(depth.isnull(), np.inf, depth)", "return xarray.where(depth.isnull(), 1.0, depth)"),
    ("C07", "cg_ratio_switch", "wavetheory/lineardispersion.py",
     "return np.where(kd > 5, 0.5, 0.5 + kd / np.sinh(2 * kd))",
     "return np.where(kd > 2, 0.5, 0.5 + kd / np.sinh(2 * kd))"),
    ("C07", "first_guess_always_deep", "wavetheory/lineardispersion.py",
     "w > np.sqrt(grav / dep), k_deep_water_estimate, k_shallow_water_estimate",
     "w > 0, k_deep_water_estimate, k_shallow_water_estimate"),
    ("C07", "wavelength_pi", "wavespectra/spectrum.py",
     "return 2 * np.pi / self.wavenumber", "return np.pi / self.wavenumber"),
    ("C07", "tolerance_loose", "wavetheory/lineardispersion.py",
     "tolerance: float = 1e-3,", "tolerance: float = 1e-2,"),
]
