"""Harness for the file-cache properties (C18, C19): scripted in-memory RemoteResource,
harness-owned logical timestamps, executable reference model and history interpreter."""
import hashlib
import os
import shutil
import tempfile
import threading
import warnings

from .harness import Violation, require

PREFIX, POSTFIX = "cachefile_", "_cachefile"
# sizes are comparable to the 1 MB the cache adds when it enlarges itself, so that evictions
# still occur after an enlargement
SIZES = {k: v * 1000 for k, v in {"a": 400, "b": 400, "c": 300, "d": 250, "e": 700, "f": 120, "g": 90, "h": 60,
                                  "i": 55, "j": 50, "k": 45, "l": 40, "m": 35, "n": 30,
                                  # a legitimately empty resource (an empty day file): 0 bytes are its exact content
                                  "z": 0}.items()}
LOGICAL_BASE = 1_000_000_000  # 2001-09-09, far in the past


def content(name, version=0):
    n = SIZES[name]
    head = f"{name}{version}|".encode()
    body = (name.upper().encode() * (n // len(name) + 1))
    return (head + body)[:n]


def cache_file_name(key):
    """Documented naming rule: prefix + md5(uri incl. comment, directives stripped) + postfix."""
    return PREFIX + hashlib.md5(key.encode()).hexdigest() + POSTFIX


def is_cache_name(fn):
    return fn.startswith(PREFIX) and fn.endswith(POSTFIX)


def pp_upper(path):
    with open(path, "rb") as fh:
        d = fh.read()
    with open(path, "wb") as fh:
        fh.write(d.upper() + b"#pp")


def pp_boom(path):
    raise Fault("post-processing failed")


def expected_bytes(name, postprocess):
    d = content(name)
    return d.upper() + b"#pp" if postprocess else d


class Fault(Exception):
    pass


class MemResource:
    """Thread-safe scripted resource. Not a subclass at import time (the base class is bound in
    make_resource so that the module imports without the repository)."""


def make_resource(src_dir=None):
    from ocean_science_utilities.filecache.remote_resources import (RemoteResource,
                                                                    _RemoteResourceUriNotFound)

    class _Mem(RemoteResource):
        URI_PREFIX = "mem://"

        def __init__(self):
            self.lock = threading.Lock()
            self.log = []
            self.faults = {}          # name -> spec dict (consumed once unless sticky)
            self.missing = set()
            self.gates = None         # dict name -> (wait_event or None, set_event or None)
            self.gate_timeouts = 0
            self.exit_hook = None

        def download(self):
            def _dl(uri, filepath):
                name = uri[len("mem://"):]
                with self.lock:
                    self.log.append(uri)
                    fault = self.faults.get(name)
                    if fault is not None and not fault.get("sticky"):
                        self.faults.pop(name)
                    gate = self.gates.get(name) if self.gates else None
                if gate and gate[0] is not None:
                    if not gate[0].wait(5.0):
                        with self.lock:
                            self.gate_timeouts += 1
                try:
                    if name in self.missing or name not in SIZES:
                        raise _RemoteResourceUriNotFound(uri)
                    data = content(name)
                    if fault is not None:
                        kind = fault["kind"]
                        if kind == "not_found":
                            raise _RemoteResourceUriNotFound(uri)
                        if kind == "error_before_write":
                            raise Fault("I/O error before any byte was written")
                        if kind == "partial_write":
                            k = fault.get("k", 1)
                            k = {"len-1": len(data) - 1}.get(k, k)
                            with open(filepath, "wb") as fh:
                                fh.write(data[:k])
                                fh.flush()
                                if fault.get("crash"):
                                    os._exit(77)
                            raise Fault(f"I/O error after {k} bytes")
                        if kind == "crash_before_write":
                            os._exit(77)
                        if kind == "crash_after_write":
                            with open(filepath, "wb") as fh:
                                fh.write(data)
                            os._exit(77)
                    with open(filepath, "wb") as fh:
                        fh.write(data)
                    return True
                finally:
                    if gate and gate[1] is not None:
                        gate[1].set()
            return _dl

    return _Mem()


def make_local_resource():
    from ocean_science_utilities.filecache.remote_resources import RemoteResourceLocal
    return RemoteResourceLocal()


# ----------------------------------------------------------------------------- URI handling
def parse_item(item):
    """item: {'name':..,'comment':'x'|None,'validate':None|'vok'|'vbad','postprocess':bool,
    'scheme':'mem'|'file'} -> (raw uri string, key, name)"""
    scheme = item.get("scheme", "mem")
    return scheme


def settle_threads():
    """Pool worker threads may outlive a request that raised; wait for them to finish."""
    me = threading.current_thread()
    for t in threading.enumerate():
        if t is not me and t is not threading.main_thread() and t.daemon and "worker" in t.name:
            t.join(2.0)


class Lab:
    """One cache directory + resources + model, driven operation by operation."""

    def __init__(self, limit_bytes, parallel, tolerant=True, scratch_root=None, attach=None):
        from ocean_science_utilities.filecache.cache_object import FileCache
        self.FileCache = FileCache
        if attach:
            self.root = attach
        else:
            root = scratch_root or os.environ.get("TMPDIR") or tempfile.gettempdir()
            self.root = tempfile.mkdtemp(prefix="vkcache_", dir=root)
        self.dir = os.path.join(self.root, "cache")
        self.src = os.path.join(self.root, "src")
        os.makedirs(self.dir, exist_ok=True)
        os.makedirs(self.src, exist_ok=True)
        for n in SIZES:
            sp = os.path.join(self.src, n)
            if not os.path.exists(sp):
                with open(sp, "wb") as fh:
                    fh.write(content(n))
        self.strict = True
        self.res = make_resource()
        self.local = make_local_resource()
        self.parallel = parallel
        self.tolerant = tolerant
        self.size_gb = limit_bytes / 1e9
        self.op = 0
        self.stamps = {}            # file name -> logical second
        self.model = {}             # key -> {"bytes": b, "rec": int}
        self.foreign = {}           # relative path -> bytes
        self.cache = None
        self.limit = None
        self.evictions = 0
        self.hits_seen = 0
        self.evict_after_hit = False
        self.saw_duplicates = False
        self.open_cache(first=True)

    # -- lifecycle
    def open_cache(self, first=False, size_gb=None, parallel=None):
        with warnings.catch_warnings():
            warnings.simplefilter("ignore")
            self.cache = self.FileCache(
                self.dir, size_GB=self.size_gb if size_gb is None else size_gb,
                resources=[self.res, self.local],
                parallel=self.parallel if parallel is None else parallel,
                allow_for_missing_files=self.tolerant)
        self.cache.disable_progress_bar = True
        self.cache.set_directive_function("validate", "vok", lambda p: True)
        self.cache.set_directive_function("validate", "vbad", lambda p: False)
        self.cache.set_directive_function("postprocess", "up", pp_upper)
        self.cache.set_directive_function("postprocess", "boom", pp_boom)
        if first:
            self.limit = int(self.cache.config.max_size_bytes)
        return self.cache

    def close(self):
        shutil.rmtree(self.root, ignore_errors=True)

    # -- uri helpers
    def uri_of(self, item):
        name = item["name"]
        base = f"mem://{name}" if item.get("scheme", "mem") == "mem" else f"file://{os.path.join(self.src, name)}"
        key = base + (f"<<{item['comment']}" if item.get("comment") else "")
        d = []
        if item.get("validate"):
            d.append(f"validate={item['validate']}")
        if item.get("postprocess"):
            d.append("postprocess=" + ("up" if item["postprocess"] is True else item["postprocess"]))
        raw = (";".join(d) + ":" if d else "") + key
        return raw, key

    # -- disk observation
    def list_cache_files(self):
        return sorted(f for f in os.listdir(self.dir) if is_cache_name(f) and os.path.isfile(os.path.join(self.dir, f)))

    def _stat_ns(self, fn):
        st = os.stat(os.path.join(self.dir, fn))
        return (st.st_atime_ns, st.st_mtime_ns)

    def observe_touched(self):
        touched = set()
        for fn in self.list_cache_files():
            if fn not in self.stamps or self._stat_ns(fn) != tuple(x * 10 ** 9 for x in self.stamps[fn]):
                touched.add(fn)
        return touched

    def restamp(self, touched):
        """Stamps are (atime, mtime) in logical seconds; the cache's notion of recency is their max."""
        now = LOGICAL_BASE + self.op * 10
        live = set(self.list_cache_files())
        for fn in list(self.stamps):
            if fn not in live:
                self.stamps.pop(fn)
        for fn in live:
            if fn in touched:
                self.stamps[fn] = (now, now)
            os.utime(os.path.join(self.dir, fn), self.stamps[fn])

    def set_stamp(self, fn, atime, mtime):
        self.stamps[fn] = (atime, mtime)
        os.utime(os.path.join(self.dir, fn), (atime, mtime))

    # -- invariants
    def check_invariants(self, where):
        files = self.list_cache_files()
        n = len(self.cache)
        want = {cache_file_name(k): k for k in self.model}
        require(len(want) == len(self.model), "distinct_keys_distinct_files", f"{where}")
        if self.strict:
            require(n == len(files), "entries_equal_cache_files_on_disk",
                    f"{where}: len(cache)={n} files on disk={len(files)}")
            require(set(files) == set(want), "disk_matches_model",
                    f"{where}: on disk only={sorted(set(files) - set(want))} model only="
                    f"{sorted(want[f] for f in set(want) - set(files))}")
        else:
            # after a request that raised, complete files may exist that were never registered
            require(n == len(self.model), "entries_equal_model_entries", f"{where}: len(cache)={n} model={len(self.model)}")
            require(set(want) <= set(files), "cached_entry_has_its_file",
                    f"{where}: missing files for {sorted(want[f] for f in set(want) - set(files))}")
            self.check_no_poison(where)
        for fn, key in want.items():
            with open(os.path.join(self.dir, fn), "rb") as fh:
                data = fh.read()
            require(data == self.model[key]["bytes"], "cached_file_holds_resource_bytes",
                    f"{where}: key={key} len={len(data)} expected len={len(self.model[key]['bytes'])}")
        for rel, data in self.foreign.items():
            p = os.path.join(self.dir, rel)
            require(os.path.isfile(p), "foreign_file_never_deleted", f"{where}: {rel} is gone")
            with open(p, "rb") as fh:
                got = fh.read()
            require(got == data, "foreign_file_never_modified", f"{where}: {rel}")
        total = sum(len(v["bytes"]) for v in self.model.values())
        return total

    # -- fault support (C19)
    def universe(self):
        """file name -> (key, name) for every key the histories can produce."""
        out = {}
        for n in SIZES:
            for c in (None, "x", "y"):
                key = f"mem://{n}" + (f"<<{c}" if c else "")
                out[cache_file_name(key)] = (key, n)
        return out

    def check_no_poison(self, where):
        """Every file under a cache-file name holds the complete (raw or post-processed) resource."""
        uni = self.universe()
        for fn in self.list_cache_files():
            require(fn in uni, "no_unknown_cache_files_appear", f"{where}: {fn}")
            key, name = uni[fn]
            with open(os.path.join(self.dir, fn), "rb") as fh:
                data = fh.read()
            ok = data in (expected_bytes(name, False), expected_bytes(name, True))
            if key in self.model:
                ok = data == self.model[key]["bytes"]
            require(ok, "no_partial_or_rejected_file_under_a_cache_name",
                    f"{where}: {key} holds {len(data)} bytes, complete resource has {len(content(name))}")

    def sync_model_from_cache(self, where, pp_keys=()):
        """After a faulted request: whatever the cache says it holds must be complete; adopt it."""
        uni = self.universe()
        for fn, (key, name) in uni.items():
            with warnings.catch_warnings():
                warnings.simplefilter("ignore")
                cached = self.cache.in_cache(key) == [True]
            p = os.path.join(self.dir, fn)
            if cached:
                require(os.path.isfile(p), "cache_record_without_file",
                        f"{where}: {key} is reported as cached but its file does not exist")
                with open(p, "rb") as fh:
                    data = fh.read()
                if key in self.model:
                    exp = [self.model[key]["bytes"]]
                elif key in pp_keys:
                    exp = [expected_bytes(name, True)]
                else:
                    exp = [expected_bytes(name, False), expected_bytes(name, True)]
                require(data in exp, "no_partial_or_rejected_file_served_as_cached",
                        f"{where}: {key} cached with {len(data)} bytes; complete resource has {len(content(name))}")
                self.model[key] = {"bytes": data, "rec": self.op}
            else:
                self.model.pop(key, None)

    def op_reopen_sync(self, where="after reopen"):
        """Reopen (simulated crash/restart) and adopt what is on disk, checking it is not poisoned."""
        self.op += 1
        self.open_cache()
        self.strict = True
        uni = self.universe()
        self.model = {}
        for fn in self.list_cache_files():
            require(fn in uni, "no_unknown_cache_files_appear", f"{where}: {fn}")
            key, name = uni[fn]
            with open(os.path.join(self.dir, fn), "rb") as fh:
                data = fh.read()
            require(data in (expected_bytes(name, False), expected_bytes(name, True)),
                    "partial_file_adopted_after_reopen",
                    f"{where}: {key} holds {len(data)} of {len(content(name))} bytes under a valid cache name")
            self.model[key] = {"bytes": data, "rec": self.op}
        self.limit = int(self.cache.config.max_size_bytes)
        self.check_invariants(where)
        self.restamp(set(self.list_cache_files()))

    def op_get_faulted(self, items, pos, fault, where="faulted get"):
        """items: request; pos: index of the item whose download is faulted; fault: spec dict.
        Returns outcome dict. Checks the immediate contract (omit or raise, others intact)."""
        from ocean_science_utilities.filecache.remote_resources import _RemoteResourceUriNotFound
        self.op += 1
        raws, keys = zip(*[self.uri_of(it) for it in items])
        target = items[pos]
        before = {k: dict(v) for k, v in self.model.items()}
        kind = fault["kind"]
        if kind == "postprocess_error":
            items = [dict(it) for it in items]
            items[pos]["postprocess"] = "boom"
            raws, keys = zip(*[self.uri_of(it) for it in items])
        elif kind == "missing":
            self.res.missing.add(target["name"])
        else:
            # the fault applies to every fetch of that resource during this request
            self.res.faults[target["name"]] = dict(fault, sticky=True)
        log0 = len(self.res.log)
        raised = None
        paths = None
        try:
            with warnings.catch_warnings():
                warnings.simplefilter("ignore")
                paths = self.cache[list(raws)]
        except _RemoteResourceUriNotFound as e:
            raised = ("not_found", e)
        except Fault as e:
            raised = ("fault", e)
        finally:
            self.res.faults.pop(target["name"], None)
            self.res.missing.discard(target["name"])
            settle_threads()
        fetched = self.res.log[log0:]
        not_found = kind in ("not_found", "missing")
        if not_found and self.tolerant:
            require(raised is None, "tolerant_mode_omits_missing_uri_without_raising", f"{raws} raised {raised}")
            exp = [os.path.join(self.dir, cache_file_name(k)) for i, k in enumerate(keys) if k != keys[pos]]
            require([os.path.basename(p) for p in paths] == [os.path.basename(p) for p in exp],
                    "tolerant_mode_omits_exactly_the_failed_uri", f"request={raws} failed={raws[pos]} returned={paths}")
            for i, (it, key) in enumerate(zip(items, keys)):
                if key == keys[pos]:
                    continue
                p = os.path.join(self.dir, cache_file_name(key))
                expb = before[key]["bytes"] if key in before and it.get("validate") != "vbad" \
                    else expected_bytes(it["name"], it.get("postprocess"))
                require(os.path.isfile(p), "returned_path_exists", f"{key}")
                with open(p, "rb") as fh:
                    data = fh.read()
                require(data == expb, "returned_path_holds_resource_bytes", f"{key}: {len(data)} vs {len(expb)}")
        else:
            require(raised is not None, "failed_fetch_must_raise_or_be_omitted",
                    f"request={raws} fault={fault} strict/IO failure but returned {paths}")
            if not_found:
                require(raised[0] == "not_found", "strict_mode_raises_not_found", f"{raised}")
        self.strict = False if raised is not None else self.strict
        # every previously cached key other than a rejected one is intact
        rejected = {k for it, k in zip(items, keys) if it.get("validate") == "vbad"}
        for k, v in before.items():
            if k in rejected:
                continue
            p = os.path.join(self.dir, cache_file_name(k))
            require(os.path.isfile(p), "previously_cached_uri_intact", f"{where}: {k} file is gone")
            with open(p, "rb") as fh:
                require(fh.read() == v["bytes"], "previously_cached_uri_intact", f"{where}: {k} bytes changed")
        # the failed key must not be cached
        with warnings.catch_warnings():
            warnings.simplefilter("ignore")
            still = self.cache.in_cache(keys[pos]) == [True]
        if still:
            # only legitimate if it was cached before and not rejected
            require(keys[pos] in before and keys[pos] not in rejected, "failed_uri_not_registered_as_cached",
                    f"{where}: {keys[pos]} is reported as cached after its fetch failed")
        if raised is not None or not_found:
            # nothing of the failed download may sit under the final cache name: neither a partial file
            # nor a complete one whose post-processing failed
            if (keys[pos] not in before or keys[pos] in rejected) and list(keys).count(keys[pos]) == 1:
                pth = os.path.join(self.dir, cache_file_name(keys[pos]))
                require(not os.path.exists(pth), "failed_download_leaves_nothing_under_the_cache_name",
                        f"{where}: {keys[pos]} fault={fault}: a file of {os.path.getsize(pth) if os.path.exists(pth) else 0} "
                        f"bytes exists under its cache name")
        pp_keys = {k for it, k in zip(items, keys) if it.get("postprocess") is True}
        self.sync_model_from_cache(where, pp_keys)
        self.check_invariants(where)
        self.restamp(set(self.list_cache_files()))
        return {"raised": raised[0] if raised else None, "fetched": fetched}


    # -- operations
    # -- operations
    def op_get(self, items, expect_fail=None):
        """Fault-free get. Returns info dict."""
        self.op += 1
        raws, keys = [], []
        for it in items:
            raw, key = self.uri_of(it)
            raws.append(raw)
            keys.append(key)
        before = dict(self.model)
        log0 = len(self.res.log)
        # per resource: how many fetches are admissible. A cached key is fetched only from its first occurrence
        # carrying a failing validation on (later occurrences in the same request then find it gone); a key
        # that is not cached is fetched at least once and at most once per occurrence.
        want_fetch = []
        gone = set()
        nhits = 0
        for it, key in zip(items, keys):
            hit = key in self.model and key not in gone and it.get("validate") != "vbad"
            if hit:
                nhits += 1
                continue
            gone.add(key)
            if it.get("scheme", "mem") == "mem":
                want_fetch.append("mem://" + it["name"])
        rejected_here = {key for it, key in zip(items, keys) if key in gone}
        if len(set(keys)) < len(keys):
            self.saw_duplicates = True
        with warnings.catch_warnings():
            warnings.simplefilter("ignore")
            arg = raws[0] if len(raws) == 1 and items[0].get("as_str") else raws
            paths = self.cache[arg]
        fetched = self.res.log[log0:]
        # every miss is fetched; a URI named several times in one request is fetched at least once and at
        # most once per occurrence (the property does not say which); hits are never fetched
        from collections import Counter
        cf, cw = Counter(fetched), Counter(want_fetch)
        require(set(cf) == set(cw) and all(1 <= cf[u] <= cw[u] for u in cw), "hits_served_without_contacting_resource",
                f"request={raws} fetched={fetched} expected fetches={want_fetch}")
        require(isinstance(paths, list) and len(paths) == len(items), "one_path_per_uri",
                f"request={raws} returned {paths!r}")
        exp_paths = [os.path.join(self.dir, cache_file_name(k)) for k in keys]
        require([os.path.basename(p) for p in paths] == [os.path.basename(p) for p in exp_paths]
                and all(os.path.dirname(os.path.abspath(p)) == os.path.abspath(self.dir) for p in paths),
                "path_is_documented_cache_file_name", f"request={raws} paths={paths}")
        require(len(set(paths)) == len(set(keys)), "distinct_uris_never_share_a_file", f"{raws} -> {paths}")
        touched = self.observe_touched()
        req_bytes = 0
        fresh = {}
        for it, key in zip(items, keys):
            if key not in before or key in rejected_here:
                # fetched in this request; if named twice with different directives either may have won
                fresh.setdefault(key, set()).add(bool(it.get("postprocess")))
        for it, key, p in zip(items, keys, paths):
            if key in fresh:
                cands = [expected_bytes(it["name"], pp) for pp in fresh[key]]
            else:
                cands = [before[key]["bytes"]]
            require(os.path.isfile(p), "returned_path_exists", f"key={key} path={p}")
            with open(p, "rb") as fh:
                data = fh.read()
            exp = data if data in cands else cands[0]
            require(data == exp, "returned_path_holds_resource_bytes",
                    f"key={key} got {len(data)} bytes, expected {len(exp)}")
            self.model[key] = {"bytes": exp, "rec": self.op}
        req_bytes = sum(len(self.model[k]["bytes"]) for k in set(keys))
        # limit
        new_limit = int(self.cache.config.max_size_bytes)
        if req_bytes > self.limit:
            require(new_limit >= req_bytes, "limit_enlarged_to_fit_single_request",
                    f"request bytes={req_bytes} old limit={self.limit} new limit={new_limit}")
            enlarged = True
        else:
            require(new_limit == self.limit, "limit_grows_only_when_a_request_exceeds_it",
                    f"request bytes={req_bytes} old limit={self.limit} new limit={new_limit}")
            enlarged = False
        self.limit = new_limit
        # eviction validity
        on_disk = set(self.list_cache_files())
        name_of = {cache_file_name(k): k for k in self.model}
        evicted = [k for fn, k in name_of.items() if fn not in on_disk]
        kept = [k for fn, k in name_of.items() if fn in on_disk]
        extra = on_disk - set(name_of)
        if self.strict:
            require(not extra, "no_unknown_cache_files_appear", f"{sorted(extra)}")
        else:
            self.check_no_poison(f"after get {raws}")
        for k in evicted:
            require(k not in keys, "current_request_never_evicted", f"evicted {k} requested in this call {raws}")
        total = sum(len(self.model[k]["bytes"]) for k in kept)
        require(total <= self.limit, "cache_size_within_limit_after_request",
                f"total={total} limit={self.limit} kept={kept}")
        if evicted:
            require(len(want_fetch) > 0 or any(it.get("scheme") == "file" for it in items) or
                    any(it.get("validate") == "vbad" for it in items), "no_eviction_without_new_data", f"{evicted}")
            newest_ev = max(self.model[k]["rec"] for k in evicted)
            oldest_kept = min(self.model[k]["rec"] for k in kept) if kept else None
            require(oldest_kept is None or newest_ev <= oldest_kept, "eviction_is_least_recently_used_first",
                    f"evicted={[(k, self.model[k]['rec']) for k in evicted]} kept={[(k, self.model[k]['rec']) for k in kept]}")
            last = max(evicted, key=lambda k: self.model[k]["rec"])
            cands = [k for k in evicted if self.model[k]["rec"] == self.model[last]["rec"]]
            require(any(total + len(self.model[k]["bytes"]) > self.limit for k in cands), "eviction_is_minimal",
                    f"total after={total} limit={self.limit} evicted={evicted}")
            self.evictions += len(evicted)
            if self.hits_seen:
                self.evict_after_hit = True
            evicted_recs = sorted((self.model[k]["rec"], k.replace(self.root, "<root>")) for k in evicted)
            for k in evicted:
                self.model.pop(k)
        self.hits_seen += nhits
        # stamps: everything the cache touched plus (by the property) every requested file is 'now'
        self.check_invariants(f"after get {raws}")
        # last action of the operation: reads above may bump atime (relatime), so stamp afterwards
        self.restamp(touched)
        return {"paths": [os.path.basename(p) for p in paths], "evicted": sorted(evicted), "enlarged": enlarged,
                "evicted_recs": evicted_recs if evicted else [],
                "hits": nhits, "fetched": len(fetched), "touched": len(touched)}

    def op_remove(self, item):
        self.op += 1
        raw, key = self.uri_of(item)
        self.cache.remove(raw)
        self.model.pop(key, None)
        self.check_invariants(f"after remove {raw}")
        require(self.cache.in_cache(raw) == [False], "removed_key_not_in_cache", raw)
        self.restamp(set())

    def op_purge(self):
        self.op += 1
        self.cache.purge()
        self.model.clear()
        self.check_invariants("after purge")
        self.restamp(set())

    def op_reopen(self, size_bytes=None, parallel=None):
        self.op += 1
        old_limit = self.limit
        self.open_cache(size_gb=None if size_bytes is None else size_bytes / 1e9, parallel=parallel)
        require(int(self.cache.config.max_size_bytes) == old_limit, "persisted_configuration_wins_on_reopen",
                f"limit {old_limit} -> {int(self.cache.config.max_size_bytes)}")
        self.check_invariants("after reopen")
        self.restamp(set())

    def op_touch(self, item, age=False, mode="both"):
        """User access to a cache file: reading bumps atime only, rewriting mtime only, touch both."""
        self.op += 1
        _, key = self.uri_of(item)
        fn = cache_file_name(key)
        if key in self.model:
            a0, m0 = self.stamps[fn]
            if age:
                sec = LOGICAL_BASE - 1000 - self.op
                self.model[key]["rec"] = -self.op
                a, m = sec, sec
            else:
                sec = LOGICAL_BASE + self.op * 10
                self.model[key]["rec"] = self.op
                a, m = {"both": (sec, sec), "atime": (sec, m0), "mtime": (a0, sec)}[mode]
            self.set_stamp(fn, a, m)
            self.restamp(set())
            return True
        return False

    def op_foreign(self, rel, data):
        self.op += 1
        p = os.path.join(self.dir, rel)
        os.makedirs(os.path.dirname(p), exist_ok=True)
        with open(p, "wb") as fh:
            fh.write(data)
        self.foreign[rel] = data
        self.restamp(set())


FOREIGN_NAMES = ["notes.txt", "cachefile_abc", "abc_cachefile", "xcachefile_0123_cachefile",
                 "cachefile_0123_cachefile.tmp", "cachefile_0123_cachefile.incomplete", "CACHEFILE_0123_CACHEFILE",
                 "sub/cachefile_0123_cachefile", "cachefile", "data.bin"]
