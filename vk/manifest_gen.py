"""Regenerate MANIFEST.json from the per-check META tables:  python -m vk.manifest_gen"""
import importlib
import json
import os

VERIF = os.path.dirname(os.path.dirname(os.path.abspath(__file__)))
PY = "/venv/bin/python"
BASELINE = ("cd /repo && /venv/bin/python -m pytest -ra -q -p no:cacheprovider --timeout=900 "
            "--continue-on-collection-errors")

ALL = [f"C{i:02d}" for i in range(1, 21)]


def main():
    from . import boot
    boot.boot()
    checks, na = [], []
    for pid in ALL:
        try:
            mod = importlib.import_module(f"vk.checks.{pid.lower()}")
        except ImportError:
            na.append({"property_id": pid, "reason": "check not built yet in this session (planned; see DESIGN.md section 4)"})
            continue
        m = mod.META
        if m.get("not_applicable"):
            na.append({"property_id": pid, "reason": m["not_applicable"]})
            continue
        checks.append({
            "property_id": pid,
            "quick_cmd": f"{PY} -m vk run --property {pid} --tier quick",
            "thorough_cmd": f"{PY} -m vk run --property {pid} --tier thorough",
            "evidence_file": f"evidence/{pid}.json",
            "replay_cmd_template": f"{PY} -m vk replay {{path}}",
            "engine": "vk",
            "level_claimed": {
                "category": m.get("level", "exploration"),
                "text": m.get("level_text", m["rule"]),
                "design_ref": f"DESIGN.md section 4, {pid}",
            },
            "level_note": m.get("level_note", "; ".join(m.get("assumptions", []))),
            "technique": m.get("technique", "property-based testing (hypothesis) against an independent oracle"),
        })
    man = {
        "version": 1,
        "setup_cmd": f"{PY} -m vk setup",
        "hooks": {
            "guard": "OCEAN_SCIENCE_UTILITIES_VERIF",
            "enable": "no source hooks are needed: every observation point is public API, the file system or a RemoteResource subclass; the variable is set by vk.boot for uniformity only",
            "baseline_off_cmd": BASELINE,
            "source_commits": [],
            "add_only": True,
        },
        "engines": [{
            "name": "vk",
            "path": "vk/",
            "serves_properties": [c["property_id"] for c in checks],
            "kind_free_text": "hypothesis-driven generated-input search (plain, stateful and fault-enumerating) with independent numpy/Fraction oracles; JSON case dicts double as replay files",
        }],
        "checks": checks,
        "notes": "Run from /verif. VERIF_SEED selects the hypothesis seed; VERIF_REPO (default /repo) selects the tree under test; exit 2 + HARNESS-ERROR means the harness itself failed (never a VIOLATION).",
        "not_applicable": na,
    }
    with open(os.path.join(VERIF, "MANIFEST.json"), "w") as fh:
        json.dump(man, fh, indent=1)
    print(f"{len(checks)} checks, {len(na)} not applicable")


if __name__ == "__main__":
    main()
