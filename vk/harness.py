"""Case recording, violation bucketing, hypothesis driver, evidence writer.

A *sub-check* is a named pair (strategy producing a JSON-able case dict, run(case)).
run(case) returns an Info dict {"nontrivial": bool, "classes": [labels]} or raises Violation.
Exceptions whose traceback passes through the repository under test are converted to
Violation("raises:..."); any other exception is a harness error (exit code 2, never VIOLATION).
"""
import hashlib
import json
import math
import os
import sys
import time
import traceback

from . import boot

boot.boot()

import hypothesis  # noqa: E402
from hypothesis import HealthCheck, Phase, given, settings  # noqa: E402


class Violation(Exception):
    def __init__(self, clause, detail="", match=None):
        super().__init__(f"{clause}: {detail}")
        self.clause = clause
        self.detail = str(detail)[:2000]
        self.match = match or {}


class HarnessError(Exception):
    pass


def require(cond, clause, detail=""):
    if not cond:
        raise Violation(clause, detail() if callable(detail) else detail)


# --------------------------------------------------------------------------- json helpers
def _default(o):
    import numpy as np
    if isinstance(o, np.generic):
        return o.item()
    if isinstance(o, np.ndarray):
        return o.tolist()
    if isinstance(o, (set, frozenset)):
        return sorted(o)
    if isinstance(o, bytes):
        return o.hex()
    if isinstance(o, tuple):
        return list(o)
    return repr(o)


def canon(case) -> str:
    return json.dumps(case, sort_keys=True, default=_default, separators=(",", ":"))


def sha(case) -> str:
    return hashlib.sha1(canon(case).encode()).hexdigest()


def _sanitize(o):
    """Make a structure strict-JSON friendly (NaN/inf -> strings) for evidence samples."""
    if isinstance(o, float):
        if math.isnan(o):
            return "NaN"
        if math.isinf(o):
            return "Infinity" if o > 0 else "-Infinity"
        return o
    if isinstance(o, dict):
        return {str(k): _sanitize(v) for k, v in o.items()}
    if isinstance(o, (list, tuple)):
        return [_sanitize(v) for v in o]
    if isinstance(o, (str, int, bool)) or o is None:
        return o
    return _sanitize(json.loads(json.dumps(o, default=_default)))


def _truncate(o, n=24):
    """Shorten long lists in samples so evidence files stay readable."""
    if isinstance(o, dict):
        return {k: _truncate(v, n) for k, v in o.items()}
    if isinstance(o, list):
        if len(o) > n:
            return [_truncate(v, n) for v in o[:n]] + [f"... {len(o) - n} more"]
        return [_truncate(v, n) for v in o]
    return o


# --------------------------------------------------------------------------- sub-checks
class SubCheck:
    def __init__(self, name, strategy, run, budget, fixed=None, rule="", shrink=True,
                 thorough_only=False, stateful=False):
        self.name = name
        self.strategy = strategy      # callable(tier) -> hypothesis strategy of case dicts
        self.run = run                # callable(case) -> info dict
        self.budget = budget          # {"quick": n, "thorough": n_per_shard}
        self.fixed = fixed            # callable() -> list of case dicts (boundary examples)
        self.rule = rule
        self.shrink = shrink
        self.thorough_only = thorough_only


REPO_SRC = os.path.realpath(boot.SRC)
# mutation / seeded-change runs redirect evidence and replays away from /verif
OUT_ROOT = os.environ.get("VK_OUT_ROOT", boot.VERIF_ROOT)
VK_DIR = os.path.dirname(os.path.abspath(__file__))


def _repo_frame(tb):
    """Innermost frame of the traceback that lies inside the repository under test."""
    found = None
    for fs in traceback.extract_tb(tb):
        fn = os.path.realpath(fs.filename)
        if fn.startswith(REPO_SRC + os.sep):
            found = (os.path.relpath(fn, REPO_SRC), fs.name)
    return found


class Recorder:
    def __init__(self, prop, tier, seed):
        self.prop = prop
        self.tier = tier
        self.seed = seed
        self.evaluations = 0
        self.nontrivial = set()
        self.classes = {}
        self.sub = {}
        self.first_samples = []
        self.res_samples = {}     # sha -> (sub, case); keep 3 smallest hashes
        self.violations = []      # dicts
        self.muted = {}           # bucket -> count
        self.known = []
        self.excluded = {}
        self.notes = []
        self.t0 = time.time()

    # -- one evaluation
    def evaluate(self, sub, case):
        self.evaluations += 1
        s = self.sub.setdefault(sub.name, {"evaluations": 0, "nontrivial": 0, "violations": 0})
        s["evaluations"] += 1
        try:
            info = sub.run(case) or {}
        except Violation:
            raise
        except (KeyboardInterrupt, SystemExit):
            raise
        except hypothesis.errors.HypothesisException:
            raise
        except BaseException as e:  # noqa
            fr = _repo_frame(e.__traceback__)
            if fr is None:
                raise HarnessError(
                    f"{sub.name}: {type(e).__name__}: {e}\n" + traceback.format_exc()
                ) from e
            raise Violation(
                f"raises:{type(e).__name__}@{fr[0]}:{fr[1]}",
                f"{type(e).__name__}: {e}",
            ) from e
        # a case may enumerate many scenarios internally (fault enumeration): count each
        for desc, nontriv in info.get("sub_cases", ()):
            self.evaluations += 1
            s["evaluations"] += 1
            if nontriv:
                h = sha([sub.name, desc])
                if h not in self.nontrivial:
                    self.nontrivial.add(h)
                    s["nontrivial"] += 1
                    if len(self.first_samples) < 3 and not any(x["subcheck"] == sub.name for x in self.first_samples):
                        self.first_samples.append({"subcheck": sub.name, "case": desc})
                    elif len(self.res_samples) < 4 or h < max(self.res_samples):
                        self.res_samples[h] = {"subcheck": sub.name, "case": desc}
                        if len(self.res_samples) > 4:
                            del self.res_samples[max(self.res_samples)]
        if info.get("sub_cases"):
            self.evaluations -= 1
            s["evaluations"] -= 1
        for c in info.get("classes", ()):
            self.classes[c] = self.classes.get(c, 0) + 1
        for k, v in info.get("class_counts", {}).items():
            self.classes[k] = self.classes.get(k, 0) + v
        for k, v in info.get("excluded", {}).items():
            self.excluded[k] = self.excluded.get(k, 0) + v
        if info.get("nontrivial"):
            h = sha([sub.name, case])
            if h not in self.nontrivial:
                self.nontrivial.add(h)
                s["nontrivial"] += 1
                if len(self.first_samples) < 3 and not any(
                    x["subcheck"] == sub.name for x in self.first_samples
                ):
                    self.first_samples.append({"subcheck": sub.name, "case": case})
                else:
                    self.res_samples[h] = {"subcheck": sub.name, "case": case}
                    if len(self.res_samples) > 4:
                        del self.res_samples[max(self.res_samples)]
        return info

    # -- serialisation for shards
    def dump(self):
        return {
            "evaluations": self.evaluations,
            "nontrivial": sorted(self.nontrivial),
            "classes": self.classes,
            "sub": self.sub,
            "first_samples": self.first_samples,
            "res_samples": self.res_samples,
            "violations": self.violations,
            "muted": self.muted,
            "excluded": self.excluded,
            "notes": self.notes,
        }

    def merge(self, d):
        self.evaluations += d["evaluations"]
        self.nontrivial.update(d["nontrivial"])
        for k, v in d["classes"].items():
            self.classes[k] = self.classes.get(k, 0) + v
        for k, v in d["excluded"].items():
            self.excluded[k] = self.excluded.get(k, 0) + v
        for k, v in d["sub"].items():
            s = self.sub.setdefault(k, {"evaluations": 0, "nontrivial": 0, "violations": 0})
            for kk in set(s) | set(v):
                s[kk] = s.get(kk, 0) + v.get(kk, 0)
        for x in d["first_samples"]:
            if len(self.first_samples) < 3:
                self.first_samples.append(x)
        self.res_samples.update(d["res_samples"])
        while len(self.res_samples) > 4:
            del self.res_samples[max(self.res_samples)]
        self.violations.extend(d["violations"])
        for k, v in d["muted"].items():
            self.muted[k] = self.muted.get(k, 0) + v
        self.notes.extend(d["notes"])


# --------------------------------------------------------------------------- known findings
def load_known():
    p = os.path.join(boot.VERIF_ROOT, "known_findings.json")
    if not os.path.exists(p):
        return []
    with open(p) as fh:
        return json.load(fh).get("findings", [])


def known_match(prop, subname, v: Violation, case, known):
    for k in known:
        if k.get("status") != "known" or k.get("property") != prop:
            continue
        if k.get("subcheck") not in (None, subname):
            continue
        if k.get("clause") is not None and not v.clause.startswith(k["clause"]):
            continue
        ok = True
        for key, val in (k.get("match") or {}).items():
            if v.match.get(key, case.get(key) if isinstance(case, dict) else None) != val:
                ok = False
                break
        if ok:
            return k
    return None


# --------------------------------------------------------------------------- driver
def _settings(n, shrink):
    phases = [Phase.explicit, Phase.generate]
    if shrink:
        phases.append(Phase.shrink)
    return settings(
        max_examples=n,
        database=None,
        deadline=None,
        derandomize=False,
        report_multiple_bugs=False,
        phases=phases,
        suppress_health_check=[HealthCheck.too_slow, HealthCheck.data_too_large,
                               HealthCheck.large_base_example],
        print_blob=False,
        verbosity=hypothesis.Verbosity.quiet,
    )


def save_replay(prop, subname, case, v: Violation):
    d = os.path.join(OUT_ROOT, "replays", prop)
    os.makedirs(d, exist_ok=True)
    h = sha([subname, case])[:16]
    p = os.path.join(d, f"{h}.json")
    with open(p, "w") as fh:
        json.dump({"property": prop, "subcheck": subname, "clause": v.clause,
                   "detail": v.detail, "case": case}, fh, default=_default, indent=1)
    return os.path.relpath(p, OUT_ROOT) if OUT_ROOT == boot.VERIF_ROOT else p


def run_sub(rec: Recorder, sub: SubCheck, n, seed, known, shrink_budget_s, wall_deadline):
    """Fixed cases, regression corpus, then generated search with bucket muting."""
    prop = rec.prop
    muted = set()

    def handle(case, v):
        bucket = f"{sub.name}/{v.clause}"
        k = known_match(prop, sub.name, v, case, known)
        if k is not None:
            key = k.get("id", bucket)
            if not any(x.get("id") == key for x in rec.known):
                rec.known.append({"id": key, "what": k.get("what", bucket)})
            return bucket
        path = save_replay(prop, sub.name, case, v)
        rec.violations.append({"subcheck": sub.name, "clause": v.clause,
                               "detail": v.detail, "replay": path, "bucket": bucket})
        rec.sub[sub.name]["violations"] += 1
        return bucket

    # 1. fixed boundary cases and regression corpus (bypass hypothesis)
    fixed = list(sub.fixed()) if sub.fixed else []
    cdir = os.path.join(boot.VERIF_ROOT, "corpus", prop)
    if os.path.isdir(cdir):
        for f in sorted(os.listdir(cdir)):
            if f.endswith(".json"):
                with open(os.path.join(cdir, f)) as fh:
                    d = json.load(fh)
                if d.get("subcheck") == sub.name:
                    fixed.append(d["case"])
    for case in fixed:
        try:
            rec.evaluate(sub, case)
        except Violation as v:
            b = f"{sub.name}/{v.clause}"
            if b in muted:
                rec.muted[b] = rec.muted.get(b, 0) + 1
                continue
            muted.add(handle(case, v))

    # 2. generated search
    if n <= 0:
        return
    strat = sub.strategy(rec.tier)
    for round_ in range(6):
        state = {"fail": None, "t_fail": None, "stop": False}

        @hypothesis.seed(seed + 7919 * round_)
        @_settings(n, sub.shrink)
        @given(strat)
        def test(case):
            if state["stop"]:
                return
            if time.time() > wall_deadline and state["fail"] is None:
                state["stop"] = True
                rec.notes.append(f"{sub.name}: wall-clock budget reached; inconclusive beyond "
                                 f"{rec.sub.get(sub.name, {}).get('evaluations', 0)} cases")
                return
            if (state["t_fail"] is not None
                    and time.time() - state["t_fail"] > shrink_budget_s):
                # shrink budget used: only the best known failure still fails
                if sha(case) == state["fail"][2]:
                    raise state["fail"][1]
                return
            try:
                rec.evaluate(sub, case)
            except Violation as v:
                b = f"{sub.name}/{v.clause}"
                if b in muted:
                    rec.muted[b] = rec.muted.get(b, 0) + 1
                    return
                if state["t_fail"] is None:
                    state["t_fail"] = time.time()
                state["fail"] = (case, v, sha(case))
                raise

        try:
            test()
        except Violation:
            case, v, _ = state["fail"]
            muted.add(handle(case, v))
            continue
        except HarnessError:
            raise
        except hypothesis.errors.FailedHealthCheck as e:
            raise HarnessError(f"{sub.name}: health check: {e}") from e
        except hypothesis.errors.Flaky as e:
            if state["fail"] is not None:
                case, v, _ = state["fail"]
                muted.add(handle(case, v))
                continue
            raise HarnessError(f"{sub.name}: flaky: {e}") from e
        except hypothesis.errors.Unsatisfiable as e:
            raise HarnessError(f"{sub.name}: unsatisfiable: {e}") from e
        break


def write_evidence(rec: Recorder, meta, wall_s, inconclusive=False):
    samples = rec.first_samples + [rec.res_samples[k] for k in sorted(rec.res_samples)]
    samples = [_sanitize(_truncate(json.loads(json.dumps(s, default=_default)))) for s in samples[:6]]
    ev = {
        "property_id": rec.prop,
        "tier": rec.tier,
        "seed": rec.seed,
        "level": meta.get("level", "exploration"),
        "coverage": {
            "evaluations": rec.evaluations,
            "distinct_nontrivial": len(rec.nontrivial),
            "rule": meta.get("rule", ""),
            "samples": samples,
            "classes": dict(sorted(rec.classes.items())),
            "subchecks": rec.sub,
            "excluded_by_construction": rec.excluded,
            "muted_repeat_violations": rec.muted,
            "known_findings_seen": rec.known,
            "violation_details": rec.violations[:20],
            "notes": rec.notes[:20],
            "inconclusive_budget": bool(inconclusive or rec.notes),
            "source_hash": boot.source_hash(),
        },
        "assumptions": meta.get("assumptions", []),
        "wall_s": round(wall_s, 2),
        "violations": len(rec.violations),
    }
    if "exhaustive" in meta:
        ev["coverage"]["exhaustive"] = meta["exhaustive"]
    d = os.path.join(OUT_ROOT, "evidence")
    os.makedirs(d, exist_ok=True)
    p = os.path.join(d, f"{rec.prop}.json")
    tmp = p + ".tmp"
    with open(tmp, "w") as fh:
        json.dump(ev, fh, indent=1, default=_default, allow_nan=False)
    os.replace(tmp, p)
    return p
