"""Child process for C19 crash scenarios: builds the cache state, then runs the faulted request
with a download function that calls os._exit(77) at the chosen interruption point."""
import json
import sys
import warnings


def main():
    spec = json.loads(sys.argv[1])
    from . import boot
    boot.boot()
    from . import cachelab as CL
    warnings.simplefilter("ignore")
    lab = CL.Lab(10 ** 9, spec["parallel"], tolerant=spec["tolerant"], attach=spec["root"])
    from .harness import Violation
    r = spec["r"]
    try:
        for q in spec["requests"][:r]:
            lab.op_get(q)
    except Violation as v:
        print(f"CHILD-VIOLATION {v.clause} :: {v.detail}")
        sys.stdout.flush()
        sys.exit(3)
    items = spec["requests"][r]
    misses = [i for i, it in enumerate(items)
              if ("mem://" + it["name"] + (f"<<{it['comment']}" if it.get("comment") else "")) not in lab.model]
    if spec["pos"] >= len(misses):
        sys.exit(0)
    target = items[misses[spec["pos"]]]
    lab.res.faults[target["name"]] = dict(spec["fault"])
    raws = [lab.uri_of(it)[0] for it in items]
    try:
        lab.cache[raws]
    except BaseException:
        pass
    sys.exit(0)


if __name__ == "__main__":
    main()
