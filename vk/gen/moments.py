"""Directional-moment generators: realisable (von-Mises mixtures, overflow-safe Bessel ratios),
noisy / unrealisable, and the five 'hard' cases shipped with the repository's tests."""
import math

import numpy as np
from hypothesis import strategies as st

from .common import fl, log_uniform

HARD = [
    [0.557185, -0.795699, -0.305963, -0.884653],
    [-0.564027, -0.505376, -0.231672, 0.471163],
    [-0.533724, 0.751711, -0.27957, -0.808407],
    [0.458456, -0.848485, -0.515151, -0.753666],
    [0.458456 + 0.06, -0.848485, -0.515151, -0.753666],
]


def vm_ratios(kappa):
    from scipy.special import ive
    i0 = ive(0, kappa)
    return float(ive(1, kappa) / i0), float(ive(2, kappa) / i0)


def kappa_for_spread(spread_deg):
    """kappa whose circular spread sqrt(2(1-r1)) equals spread_deg (bisection)."""
    target = math.radians(spread_deg)
    lo, hi = 1e-4, 1e7
    for _ in range(200):
        mid = math.sqrt(lo * hi)
        r1, _ = vm_ratios(mid)
        if math.sqrt(max(0.0, 2 * (1 - r1))) > target:
            lo = mid
        else:
            hi = mid
    return math.sqrt(lo * hi)


def mixture_moments(lobes, background):
    """lobes: list of (weight, mu_rad, kappa); background weight isotropic."""
    tot = background + sum(w for w, _, _ in lobes)
    a1 = b1 = a2 = b2 = 0.0
    for w, mu, k in lobes:
        r1, r2 = vm_ratios(k)
        a1 += w * r1 * math.cos(mu)
        b1 += w * r1 * math.sin(mu)
        a2 += w * r2 * math.cos(2 * mu)
        b2 += w * r2 * math.sin(2 * mu)
    return [a1 / tot, b1 / tot, a2 / tot, b2 / tot]


def rotate(m, ang):
    """Moments of the distribution rotated by ang (radians)."""
    a1, b1, a2, b2 = m
    c, s = math.cos(ang), math.sin(ang)
    c2, s2 = math.cos(2 * ang), math.sin(2 * ang)
    return [a1 * c - b1 * s, a1 * s + b1 * c, a2 * c2 - b2 * s2, a2 * s2 + b2 * c2]


def mirror(m):
    a1, b1, a2, b2 = m
    return [a1, -b1, a2, -b2]


@st.composite
def quadruple(draw, kinds=("vm1", "vm1", "vm2", "noisy", "noisy", "hard", "isotropic"), min_spread=None,
              step_deg=None):
    k = draw(st.sampled_from(list(kinds)))
    if k == "vm1" or k == "vm2":
        lobes = []
        for _ in range(1 if k == "vm1" else 2):
            if min_spread is not None:
                spread = draw(fl(min_spread, 75.0))
                kappa = kappa_for_spread(spread)
            else:
                kappa = draw(log_uniform(0.05, 400.0))
            lobes.append((draw(fl(0.2, 1.0)), draw(fl(-math.pi, math.pi)), kappa))
        bg = draw(st.sampled_from([0.0, 0.0, 0.05, 0.3]))
        m = mixture_moments(lobes, bg)
    elif k == "noisy":
        r = draw(fl(0.0, 0.999))
        th = draw(fl(-math.pi, math.pi))
        m = [r * math.cos(th), r * math.sin(th), draw(fl(-1.0, 1.0)), draw(fl(-1.0, 1.0))]
    elif k == "hard":
        m = list(draw(st.sampled_from(HARD)))
        if step_deg is not None:
            m = rotate(m, math.radians(step_deg * draw(st.integers(0, 360))))
        if draw(st.booleans()):
            m = mirror(m)
    else:
        m = [0.0, 0.0, 0.0, 0.0]
    r2 = m[0] ** 2 + m[1] ** 2
    if r2 >= 1 - 1e-6:
        sc = math.sqrt((1 - 2e-6) / r2)
        m = [m[0] * sc, m[1] * sc, m[2], m[3]]
    out = {"kind": k, "m": [float(x) for x in m]}
    # known finding F23: MEM is undefined when the second reflection coefficient has modulus exactly 1
    # (moments on the boundary of realisability, a line spectrum). Excluded by construction (the a2,b2 pair
    # is pulled 0.1 % towards the origin) and counted; the documented input is kept as a fixed case.
    if abs(phi2_modulus(out["m"]) - 1.0) < 1e-6:
        out["m"][2] *= 0.999
        out["m"][3] *= 0.999
        out["nudged_off_degenerate_boundary"] = True
    return out


def phi2_modulus(m):
    c1 = complex(m[0], m[1])
    c2 = complex(m[2], m[3])
    return abs((c2 - c1 * c1) / (1 - abs(c1) ** 2))


def realisable(m):
    """Necessary conditions for (a1,b1,a2,b2) to be moments of a non-negative density
    (positive semi-definite 3x3 Toeplitz matrix of c0=1, c1, c2)."""
    c1 = complex(m[0], m[1])
    c2 = complex(m[2], m[3])
    T = np.array([[1, np.conj(c1), np.conj(c2)], [c1, 1, np.conj(c1)], [c2, c1, 1]])
    return bool(np.linalg.eigvalsh(T).min() >= -1e-12)
