"""Strategies for spectrum cases (plain dicts) and builders that turn a case into a
FrequencySpectrum / FrequencyDirectionSpectrum without going through operations under test
(datasets are assembled directly with xarray in the layouts the library documents)."""
import numpy as np
import xarray
from hypothesis import strategies as st

from .common import (LAYOUTS, VALUE_KINDS, depths, dir_grid, expand_values, fl, freq_grid,
                     layout, log_uniform)

T2000 = 946684800


@st.composite
def space_time(draw, lay):
    """time / latitude / longitude / depth for a layout."""
    shape = lay["shape"]
    kind = lay["layout"]
    n = int(np.prod(shape)) if shape else 1
    t0 = T2000 + draw(st.integers(0, 3 * 10 ** 8))
    out = {"depth": draw(depths(n))}
    if kind in ("none",):
        out["time"] = [t0]
        out["lat"] = [draw(fl(-80, 80))]
        out["lon"] = [draw(fl(-180, 180))]
    elif kind == "t":
        steps = draw(st.lists(st.integers(1, 86400), min_size=n, max_size=n))
        out["time"] = [int(t0 + sum(steps[: i + 1])) for i in range(n)]
        out["lat"] = draw(st.lists(fl(-80, 80), min_size=n, max_size=n))
        out["lon"] = draw(st.lists(fl(-180, 180), min_size=n, max_size=n))
    elif kind == "tl":
        nt, nl = shape
        steps = draw(st.lists(st.integers(1, 86400), min_size=nt, max_size=nt))
        out["time"] = [int(t0 + sum(steps[: i + 1])) for i in range(nt)]
        lat0 = draw(fl(-80, 0))
        lsteps = draw(st.lists(fl(0.01, 10), min_size=nl, max_size=nl))
        out["lat"] = [float(lat0 + sum(lsteps[: i + 1])) for i in range(nl)]
        out["lon"] = draw(st.lists(fl(-180, 180), min_size=n, max_size=n))
    else:  # flat
        out["time"] = [int(t0 + draw(st.integers(0, 10 ** 6))) for _ in range(n)]
        out["lat"] = draw(st.lists(fl(-80, 80), min_size=n, max_size=n))
        out["lon"] = draw(st.lists(fl(-180, 180), min_size=n, max_size=n))
    return out


@st.composite
def spec1d_case(draw, layouts=LAYOUTS, min_nf=2, max_nf=40, kinds=VALUE_KINDS,
                allow_zero_f=True, moments="disc", max_len=4, min_len=1, history=False, dtypes=False):
    f = draw(freq_grid(min_nf, max_nf, allow_zero=allow_zero_f))
    lay = draw(layout(layouts, max_len=max_len, min_len=min_len))
    n = int(np.prod(lay["shape"])) if lay["shape"] else 1
    kind = draw(st.sampled_from(kinds))
    seed = draw(st.integers(0, 2 ** 32 - 1))
    mag = draw(st.sampled_from([1e-6, 1e-3, 1.0, 1.0, 10.0, 1e3]))
    nf = len(f)
    if n * nf <= 24 and draw(st.booleans()):
        pal = st.one_of(fl(0.0, 1.0), st.sampled_from([0.0, 0.5, 1.0]))
        e = np.array(draw(st.lists(pal, min_size=n * nf, max_size=n * nf))).reshape(n, nf) * mag
        e = np.where(e < 1e-150, 0.0, e)        # no subnormal-range densities (m0 and its square root lose all precision)
        kind = "direct"
    else:
        e = expand_values(seed, kind, n, nf, None, f, mag)
    rng = np.random.default_rng(seed ^ 0x5BD1E995)
    # moments inside the unit disc: radius and angle
    mkind = draw(st.sampled_from(["any", "any", "seam180", "seam0", "small", "beam"])) if moments == "disc" else "any"
    if mkind == "seam180":
        ang = np.pi + rng.uniform(-0.05, 0.05, size=(n, nf))
    elif mkind == "seam0":
        ang = rng.uniform(-0.05, 0.05, size=(n, nf))
    else:
        ang = rng.uniform(-np.pi, np.pi, size=(n, nf))
    r = rng.uniform(0.0, 0.999, size=(n, nf)) * (0.05 if mkind == "small" else 1.0)
    if mkind == "beam":
        # very narrow but not perfectly unidirectional seas: radius 1 - 10^-u, u in [3, 7.5] (spread 2.5 deg .. 0.014 deg)
        r = 1.0 - 10.0 ** (-rng.uniform(3.0, 7.5, size=(n, nf)))
    a1 = r * np.cos(ang)
    b1 = r * np.sin(ang)
    ang2 = rng.uniform(-np.pi, np.pi, size=(n, nf))
    r2 = rng.uniform(0.0, 0.999, size=(n, nf))
    a2 = r2 * np.cos(ang2)
    b2 = r2 * np.sin(ang2)
    if draw(st.integers(0, 5)) == 0:
        m = rng.uniform(size=(n, nf)) < 0.15
        a1 = np.where(m, np.nan, a1)
        b1 = np.where(m, np.nan, b1)
    case = {"kind": "1d", "f": f, **lay, "values": kind, "moment_kind": mkind,
            "e": e.reshape(-1).tolist(),
            "a1": a1.reshape(-1).tolist(), "b1": b1.reshape(-1).tolist(),
            "a2": a2.reshape(-1).tolist(), "b2": b2.reshape(-1).tolist()}
    case.update(draw(space_time(lay)))
    if history and draw(st.integers(0, 2)) == 0:
        case["history"] = draw(st.sampled_from(HISTORIES))
    if history and draw(st.integers(0, 3)) == 0:
        # memory layout of the stored arrays (same values): Fortran order or a strided view into a larger buffer
        case["memory"] = draw(st.sampled_from(["F", "strided"]))
    if dtypes and draw(st.integers(0, 3)) == 0:
        # integer storage only: the library's arithmetic promotes integers to float64, so every tolerance of the
        # float64 case applies; float32 storage would need float32-level tolerances in every clause (used in C05 only)
        quantise(case, draw(st.sampled_from(["int64", "int32"] if dtypes is True else list(dtypes))))
    return case


@st.composite
def spec2d_case(draw, layouts=LAYOUTS, min_nf=2, max_nf=24, min_nd=8, max_nd=144,
                uniform_only=False, allowed_nd=None, kinds=VALUE_KINDS, allow_zero_f=True,
                max_len=3, max_cells=40000, min_len=1, relabel=False, history=False, dtypes=False):
    f = draw(freq_grid(min_nf, max_nf, allow_zero=allow_zero_f))
    dg = draw(dir_grid(min_nd, max_nd, uniform_only=uniform_only, allowed_n=allowed_nd, relabel=relabel))
    nf, nd = len(f), len(dg["dir"])
    lay = draw(layout(layouts, max_len=max_len, min_len=min_len))
    n = int(np.prod(lay["shape"])) if lay["shape"] else 1
    while n * nf * nd > max_cells and lay["shape"]:
        lay = {"layout": lay["layout"], "shape": [max(1, s // 2) for s in lay["shape"]]}
        n = int(np.prod(lay["shape"]))
    kind = draw(st.sampled_from(kinds))
    seed = draw(st.integers(0, 2 ** 32 - 1))
    mag = draw(st.sampled_from([1e-6, 1e-3, 1.0, 1.0, 10.0, 1e3]))
    e = expand_values(seed, kind, n, nf, nd, f, mag)
    if draw(st.integers(0, 7)) == 0 and nf > 1:
        # an all-zero frequency row
        row = draw(st.integers(0, nf - 1))
        e[:, row, :] = 0.0
    case = {"kind": "2d", "f": f, **dg, **lay, "values": kind, "e": e.reshape(-1).tolist()}
    case.update(draw(space_time(lay)))
    if history and draw(st.integers(0, 2)) == 0:
        case["history"] = draw(st.sampled_from(HISTORIES))
    if history and draw(st.integers(0, 3)) == 0:
        # memory layout of the stored arrays (same values): Fortran order or a strided view into a larger buffer
        case["memory"] = draw(st.sampled_from(["F", "strided"]))
    if dtypes and draw(st.integers(0, 3)) == 0:
        # integer storage only: the library's arithmetic promotes integers to float64, so every tolerance of the
        # float64 case applies; float32 storage would need float32-level tolerances in every clause (used in C05 only)
        quantise(case, draw(st.sampled_from(["int64", "int32"] if dtypes is True else list(dtypes))))
    return case


# ----------------------------------------------------------------------------- builders
def _times(sec):
    return np.array(sec, dtype="int64").astype("datetime64[s]").astype("datetime64[ns]")


def case_arrays(case):
    """numpy views of a case: dict with f, e (n, nf[, nd]), moments, depth (n,), shape."""
    f = np.array(case["f"], dtype=float)
    shape = tuple(case["shape"])
    n = int(np.prod(shape)) if shape else 1
    nf = len(f)
    out = {"f": f, "shape": shape, "n": n}
    if case["kind"] == "2d":
        d = np.array(case["dir"], dtype=float)
        out["dir"] = d
        out["e"] = np.array(case["e"], dtype=float).reshape(n, nf, len(d))
    else:
        out["e"] = np.array(case["e"], dtype=float).reshape(n, nf)
        for m in ("a1", "b1", "a2", "b2"):
            out[m] = np.array(case[m], dtype=float).reshape(n, nf)
    out["depth"] = np.array(case["depth"], dtype=float).reshape(n)
    return out


def quantise(case, dtype):
    """Store the variance density (and, for float32, the 1D moments) in another dtype: the case then holds exactly
    the values that dtype can represent (integers 0..1000 for the integer types, NaN -> 0), so oracles computed from
    the case in float64 refer to what the object stores."""
    e = np.array(case["e"], dtype=float)
    if dtype.startswith("int"):
        m = np.nanmax(e) if e.size and np.isfinite(np.nanmax(e)) and np.nanmax(e) > 0 else 1.0
        e = np.nan_to_num(np.round(e / m * 1000.0), nan=0.0)
    else:
        e = e.astype(dtype).astype(float)
        e = np.where(np.abs(e) < 1e-30, 0.0, e)            # no float32 subnormals
        if case["kind"] != "2d":
            for m_ in ("a1", "b1", "a2", "b2"):
                case[m_] = np.array(case[m_], dtype=float).astype(dtype).astype(float).tolist()
    case["e"] = e.tolist()
    case["dtype"] = dtype


HISTORIES = ("item_assignment", "dataset_assignment")
_TOUCH = ("e", "a1", "b1", "a2", "b2", "A1", "B1", "A2", "B2", "direction_step", "frequency_step", "wavenumber", "wavelength",
          "group_velocity", "significant_waveheight", "mean_period", "zero_crossing_period", "depth", "saturation_spectrum",
          "slope_spectrum", "wavenumber_density", "number_of_spectra", "variance_density")
_TOUCH_CALLS = ("m0", "m1", "m2", "hm0", "tm01", "tm02", "peak_index", "peak_frequency", "peak_period", "peak_direction",
                "peak_directional_spread", "mean_direction", "mean_directional_spread", "mean_a1", "mean_b1", "mean_a2",
                "mean_b2", "peak_wavenumber", "wave_speed", "as_frequency_spectrum", "mean_direction_per_frequency",
                "mean_spread_per_frequency")


def build(case):
    """Assemble the spectrum object for a case. With case["history"] the object is first built with OTHER contents
    (densities and moments reversed along frequency, other depths), every public property and bulk parameter is
    queried once, and the contents are then replaced in place by the case's (item assignment on the object, or on its
    dataset as the library's own operators do): the object a check sees then equals a freshly built one,
    except for whatever the implementation remembered from the earlier queries."""
    how = case.get("history")
    if not how:
        return _build_fresh(case)
    a = case_arrays(case)
    other = dict(case)
    nax = 2 if case["kind"] == "2d" else 1
    e = a["e"]
    other["e"] = (e[:, ::-1] * 0.5 + (0.25 * np.nanmax(e) if e.size and np.isfinite(np.nanmax(e)) else 0.0)).reshape(-1).tolist()
    if case["kind"] != "2d":
        for m in ("a1", "b1", "a2", "b2"):
            other[m] = (-0.5 * a[m][:, ::-1]).reshape(-1).tolist()
    dep = a["depth"]
    other["depth"] = np.where(np.isfinite(dep), dep * 3.0 + 1.0, 12.0).tolist()
    spec = _build_fresh(other)
    kfamily = ("wavenumber", "wavelength", "group_velocity", "saturation_spectrum", "slope_spectrum", "wavenumber_density",
               "peak_wavenumber", "wave_speed")
    zero_f = a["f"][0] == 0            # the dispersion solver prints a warning per call for f = 0
    for name in _TOUCH:
        if zero_f and name in kfamily:
            continue
        try:
            getattr(spec, name)
        except Exception:                                   # noqa: BLE001  (asserted elsewhere, on fresh objects)
            pass
    for name in _TOUCH_CALLS:
        if zero_f and name in kfamily:
            continue
        try:
            getattr(spec, name)()
        except Exception:                                   # noqa: BLE001
            pass
    target = _build_fresh(case).dataset
    names = ["variance_density", "depth"] + ([] if case["kind"] == "2d" else ["a1", "b1", "a2", "b2"])
    for name in names:
        var = target[name]
        if how == "item_assignment":
            spec[name] = (var.dims, var.values.copy())
        else:
            spec.dataset[name] = (var.dims, var.values.copy())
    return spec


def _build_fresh(case):
    from ocean_science_utilities.wavespectra.spectrum import (FrequencyDirectionSpectrum,
                                                                FrequencySpectrum)
    a = case_arrays(case)
    kind = case["layout"]
    shape = a["shape"]
    two_d = case["kind"] == "2d"
    sdims = ("frequency", "direction") if two_d else ("frequency",)
    coords = {"frequency": a["f"]}
    if two_d:
        coords["direction"] = a["dir"]
    sshape = a["e"].shape[1:]
    t = _times(case["time"])
    lat = np.array(case["lat"], dtype=float)
    lon = np.array(case["lon"], dtype=float)
    dep = a["depth"]
    if kind == "none":
        lead = ()
        dv = {"time": ((), t[0]), "latitude": ((), lat[0]), "longitude": ((), lon[0]),
              "depth": ((), dep[0])}
    elif kind == "t":
        lead = ("time",)
        coords["time"] = t
        dv = {"latitude": (lead, lat), "longitude": (lead, lon), "depth": (lead, dep)}
    elif kind == "tl":
        lead = ("time", "latitude")
        coords["time"] = t
        coords["latitude"] = lat
        dv = {"longitude": (lead, lon.reshape(shape)), "depth": (lead, dep.reshape(shape))}
    else:
        lead = ("linear_index",)
        dv = {"time": (lead, t), "latitude": (lead, lat), "longitude": (lead, lon),
              "depth": (lead, dep)}
    full = tuple(shape) + tuple(sshape)
    dims = lead + sdims
    dt = case.get("dtype") or "float64"
    mem = case.get("memory")

    def lay(arr):
        if mem == "F" and arr.ndim >= 2:
            return np.asfortranarray(arr)
        if mem == "strided" and arr.ndim >= 1:
            return np.repeat(arr, 2, axis=-1)[..., ::2]
        return arr
    data_vars = {"variance_density": (dims, lay(a["e"].reshape(full).astype(dt)))}
    if not two_d:
        for m in ("a1", "b1", "a2", "b2"):
            data_vars[m] = (dims, lay(a[m].reshape(full).astype(dt if dt == "float32" else "float64")))
    data_vars.update(dv)
    ds = xarray.Dataset(data_vars=data_vars, coords=coords)
    return (FrequencyDirectionSpectrum if two_d else FrequencySpectrum)(ds)


# ----------------------------------------------------------------------------- bands
@st.composite
def band(draw, f, kinds=("default", "random", "grid", "grid", "empty", "single", "outside", "near_grid")):
    """(fmin, fmax, label): default, random, exactly on grid points, empty, single point,
    outside the grid."""
    k = draw(st.sampled_from(list(kinds)))
    n = len(f)
    if k == "default":
        return {"fmin": 0.0, "fmax": float("inf"), "band": k}
    if k == "random":
        a = draw(fl(0.0, f[-1] * 1.1))
        b = draw(fl(0.0, f[-1] * 1.2))
        lo, hi = min(a, b), max(a, b)
        return {"fmin": lo, "fmax": hi, "band": k}
    if k == "grid":
        i = draw(st.integers(0, n - 1))
        j = draw(st.integers(i, n - 1))
        return {"fmin": f[i], "fmax": f[j], "band": k}
    if k == "near_grid":
        # limits a few ulp to 1e-7 relative away from a grid frequency, on either side: [fmin, fmax) is decided by
        # exact comparison, so the neighbouring grid point is in or out of the band accordingly
        i = draw(st.integers(0, n - 1))
        j = draw(st.integers(i, n - 1))

        def near(x):
            how = draw(st.sampled_from(["ulp_below", "ulp_above", "rel_below", "rel_above", "exact"]))
            if how == "ulp_below":
                return float(np.nextafter(x, -np.inf))
            if how == "ulp_above":
                return float(np.nextafter(x, np.inf))
            if how == "rel_below":
                return float(x * (1.0 - draw(st.sampled_from([1e-7, 1e-9, 1e-12]))))
            if how == "rel_above":
                return float(x * (1.0 + draw(st.sampled_from([1e-7, 1e-9, 1e-12]))))
            return float(x)
        lo, hi = near(f[i]), near(f[j])
        return {"fmin": max(lo, 0.0), "fmax": hi, "band": k}
    if k == "empty":
        i = draw(st.integers(0, n - 2)) if n > 1 else 0
        lo = f[i] + (f[min(i + 1, n - 1)] - f[i]) * 0.3
        hi = f[i] + (f[min(i + 1, n - 1)] - f[i]) * 0.6
        return {"fmin": float(lo), "fmax": float(hi), "band": k}
    if k == "single":
        i = draw(st.integers(0, n - 1))
        hi = f[i + 1] if i + 1 < n else f[i] + 1.0
        return {"fmin": f[i], "fmax": float(f[i] + (hi - f[i]) * 0.5), "band": k}
    return {"fmin": float(f[-1] * 1.5 + 1.0), "fmax": float(f[-1] * 2 + 2.0), "band": k}
