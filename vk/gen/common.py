"""Shared hypothesis strategies. Every strategy yields plain JSON-able python values."""
import math

import numpy as np
from hypothesis import strategies as st


def fl(lo, hi, **kw):
    # no subnormals: quantities built from them (variances, amplitudes) underflow and lose all precision, which has
    # produced three oracle false alarms (C03, C01, C16)
    kw.setdefault("allow_subnormal", False)
    return st.floats(min_value=lo, max_value=hi, allow_nan=False, allow_infinity=False, **kw)


@st.composite
def log_uniform(draw, lo, hi):
    x = draw(fl(math.log(lo), math.log(hi)))
    return float(min(hi, max(lo, math.exp(x))))


@st.composite
def freq_grid(draw, min_n=2, max_n=40, allow_zero=True, fmax=5.0):
    """Strictly increasing frequency grid built by construction (cumulative positive steps)."""
    n = draw(st.integers(min_n, max_n))
    kind = draw(st.sampled_from(["uniform", "geometric", "random", "random", "integer_steps"]))
    zero = allow_zero and draw(st.integers(0, 3)) == 0
    f0 = 0.0 if zero else draw(fl(0.005, 0.2))
    if kind == "uniform":
        df = draw(fl(0.002, fmax / (2 * n)))
        f = [f0 + i * df for i in range(n)]
    elif kind == "integer_steps":
        # steps that are small whole multiples of a base resolution (refined near the peak, coarse in the tail): not
        # uniform, although the first step often equals the mean step and sub-bands are often locally uniform
        base = draw(st.sampled_from([0.005, 0.01, 0.0025, 0.00390625]))
        mult = draw(st.lists(st.integers(1, 3), min_size=n - 1, max_size=n - 1))
        f0 = 0.0 if zero else base * draw(st.integers(1, 20))
        f = [f0]
        for m in mult:
            f.append(f[-1] + m * base)
    elif kind == "geometric":
        r = draw(fl(1.02, 1.25))
        start = f0 if f0 > 0 else draw(fl(0.005, 0.1))
        f = [start * r ** i for i in range(n)]
        if zero:
            f = [0.0] + f[:-1]
    else:
        steps = draw(st.lists(fl(0.001, fmax / n), min_size=n - 1, max_size=n - 1))
        f = [f0]
        for s in steps:
            f.append(f[-1] + s)
    f = [float(x) for x in f]
    # guard strict monotonicity against rounding
    for i in range(1, len(f)):
        if not f[i] > f[i - 1]:
            f[i] = float(np.nextafter(f[i - 1], np.inf))
    return f


@st.composite
def dir_grid(draw, min_n=8, max_n=144, uniform_only=False, allowed_n=None, relabel=False):
    """Direction grid covering the circle: sorted angles in [0,360) with every cyclic gap in
    (0.5, 170) degrees, optionally rolled so it does not start at its minimum."""
    n = draw(st.sampled_from(allowed_n)) if allowed_n else draw(st.integers(min_n, max_n))
    uniform = uniform_only or draw(st.booleans())
    if not uniform and draw(st.integers(0, 3)) == 0:
        # equally spaced labels whose wrap-around bin has another width (0, 10, ..., 340: a 20 degree bin over the seam;
        # sectors of a scanning instrument): non-uniform although every interior difference is the same
        wrap = draw(st.one_of(fl(0.3, 0.95), fl(1.05, 3.0))) * 360.0 / n
        wrap = min(wrap, 160.0)
        d = (360.0 - wrap) / (n - 1)
        t0 = draw(st.sampled_from([0.0, 0.0, d / 2, 15.0]))
        if t0 + (n - 1) * d >= 360.0:
            t0 = 0.0
        ang = [t0 + j * d for j in range(n)]
        roll = 0
        kind = "regular_interior_other_wrap_bin"
    elif uniform:
        start_kind = draw(st.sampled_from(["zero", "half", "any"]))
        d = 360.0 / n
        t0 = {"zero": 0.0, "half": d / 2}.get(start_kind)
        if t0 is None:
            t0 = draw(fl(0.0, 359.999))
        ang = [(t0 + j * d) % 360.0 for j in range(n)]
        roll = 0
        kind = "uniform"
    else:
        w = draw(st.lists(fl(0.2, 1.0), min_size=n, max_size=n))
        tot = sum(w)
        gaps = [360.0 * x / tot for x in w]   # max gap <= 360*1/(0.2*(n-1)+1) < 170 for n>=8
        t0 = draw(fl(0.0, min(gaps[-1] * 0.999, 359.0)))
        ang = [t0]
        for g in gaps[:-1]:
            ang.append(ang[-1] + g)
        ang = [a for a in ang]
        roll = draw(st.integers(0, n - 1)) if draw(st.booleans()) else 0
        ang = ang[roll:] + ang[:roll]
        kind = "nonuniform"
    ang = [float(a) for a in ang]
    # labelling of the same physical grid: [0,360), [-180,180) or unwrapped (monotone, running past 360)
    labels = draw(st.sampled_from(["0_360", "0_360", "pm180", "unwrapped"])) if relabel else "0_360"
    if labels == "pm180":
        ang = [a - 360.0 if a >= 180.0 else a for a in ang]
    elif labels == "unwrapped":
        out = [ang[0]]
        for a in ang[1:]:
            nxt = a
            while nxt <= out[-1]:
                nxt += 360.0
            out.append(nxt)
        ang = out
    return {"dir": ang, "dir_kind": kind, "roll": roll, "dir_labels": labels}


LAYOUTS = ["none", "t", "tl", "flat"]


@st.composite
def layout(draw, kinds=LAYOUTS, max_len=4, min_len=1):
    k = draw(st.sampled_from(kinds))
    if k == "none":
        shape = []
    elif k == "t":
        shape = [draw(st.integers(min_len, max_len))]
    elif k == "tl":
        shape = [draw(st.integers(1, max_len)), draw(st.integers(1, max(1, max_len - 1)))]
    else:
        shape = [draw(st.integers(1, max_len * 2))]
    return {"layout": k, "shape": shape}


@st.composite
def depths(draw, n):
    kind = draw(st.sampled_from(["finite", "inf", "mixed", "mixed"]))
    out = []
    for _ in range(n):
        if kind == "inf":
            out.append(float("inf"))
        elif kind == "finite":
            out.append(draw(log_uniform(0.5, 5000.0)))
        else:
            c = draw(st.integers(0, 3))
            out.append([float("inf"), float("nan")][c] if c < 2 else draw(log_uniform(0.5, 5000.0)))
    return out


VALUE_KINDS = ["smooth", "random", "sparse", "plateau", "nan", "random", "smooth"]


def expand_values(seed, kind, n_spec, nf, nd, f, magnitude, nonneg=True):
    """Deterministically expand (seed, kind) into a non-negative array of shape
    (n_spec, nf[, nd]). All randomness derives from the hypothesis-drawn integer seed."""
    rng = np.random.default_rng(seed)
    f = np.asarray(f)
    shape = (n_spec, nf) if nd is None else (n_spec, nf, nd)
    if kind == "smooth":
        fp = rng.uniform(f[0] + 0.1 * (f[-1] - f[0]), f[-1], size=(n_spec, 1))
        x = np.where(f[None, :] > 0, f[None, :], np.nan) / fp
        with np.errstate(all="ignore"):
            e = x ** -5 * np.exp(-1.25 * x ** -4)
        e = np.nan_to_num(e, nan=0.0, posinf=0.0)
        # flush the far-underflowed low-frequency flank to exact zeros: subnormal densities
        # have few significant bits and make 'equal to rounding' comparisons meaningless
        e = np.where(e < 1e-30, 0.0, e)
        e = e * rng.uniform(0.5, 1.5, size=(n_spec, nf))
        if nd is not None:
            th0 = rng.uniform(0, 2 * np.pi, size=(n_spec, 1, 1))
            pw = rng.integers(1, 12)
            th = np.linspace(0, 2 * np.pi, nd, endpoint=False)[None, None, :]
            D = np.cos((th - th0) / 2) ** (2 * pw) + rng.uniform(0, 0.05)
            e = e[:, :, None] * D
    elif kind == "random":
        e = rng.uniform(0, 1, size=shape)
    elif kind == "sparse":
        e = rng.uniform(0, 1, size=shape) * (rng.uniform(0, 1, size=shape) < 0.25)
    elif kind == "plateau":
        pal = np.array([0.0, 0.5, 1.0]) if rng.uniform() < 0.5 else np.array([0.25, 1.0, 1.0])
        e = pal[rng.integers(0, 3, size=shape)]
    elif kind == "unidirectional":
        # all energy of every spectrum in exactly one direction bin
        e = np.zeros(shape)
        if nd is None:
            e = rng.uniform(0, 1, size=shape)
        else:
            j = rng.integers(0, nd, size=n_spec)
            e[np.arange(n_spec), :, j] = rng.uniform(0.01, 1, size=(n_spec, nf))
    elif kind == "monotone":
        # peak at the first or the last frequency bin
        base = np.sort(rng.uniform(0.01, 1, size=(n_spec, nf)), axis=1)
        flip = rng.uniform(size=n_spec) < 0.5
        base[flip] = base[flip, ::-1]
        e = base if nd is None else base[:, :, None] * rng.uniform(0.1, 1, size=(n_spec, 1, nd))
    elif kind == "multipeak":
        e = rng.uniform(0, 0.2, size=(n_spec, nf))
        for _ in range(3):
            j = rng.integers(0, nf, size=n_spec)
            e[np.arange(n_spec), j] += rng.choice([1.0, 1.0, 0.7])
        if nd is not None:
            e = e[:, :, None] * rng.uniform(0.1, 1, size=(n_spec, 1, nd))
    elif kind == "nan":
        e = rng.uniform(0, 1, size=shape)
        e[rng.uniform(0, 1, size=shape) < rng.uniform(0.02, 0.3)] = np.nan
    else:
        raise ValueError(kind)
    e = e * magnitude
    return e
