"""Wind-sea generators for the source-term properties (C08-C11): parametric shapes computed with
formulas written here (the repository's parametric module is not used)."""
import math

import numpy as np
import xarray
from hypothesis import strategies as st

from .common import fl, log_uniform

G = 9.81


def freq_axis(kind, nf, f0, fmax=None):
    """Geometric (ratio chosen so that the grid reaches fmax) or uniform grid from f0 to fmax."""
    if fmax is None:
        # legacy layout used by early replay files
        if kind == "geometric":
            return f0 * 1.1 ** np.arange(nf)
        return f0 + np.arange(nf) * (1.0 - f0) / max(nf - 1, 1) * 0.6
    if kind == "geometric":
        return f0 * (fmax / f0) ** (np.arange(nf) / max(nf - 1, 1))
    return f0 + np.arange(nf) * (fmax - f0) / max(nf - 1, 1)


def jonswap_1d(f, hs, fp, gamma):
    f = np.asarray(f, dtype=float)
    sigma = np.where(f <= fp, 0.07, 0.09)
    with np.errstate(all="ignore"):
        e = f ** -5.0 * np.exp(-1.25 * (fp / f) ** 4) * gamma ** np.exp(-((f - fp) ** 2) / (2 * sigma ** 2 * fp ** 2))
    e = np.nan_to_num(e, nan=0.0, posinf=0.0)
    e = np.where(e < 1e-30 * e.max(), 0.0, e) if e.max() > 0 else e
    df = np.gradient(f)
    m0 = float((e * df).sum())
    return e * (hs / 4.0) ** 2 / m0 if m0 > 0 else e


def spreading(d_deg, theta, power):
    d = np.radians(np.asarray(d_deg) - theta)
    D = np.cos(d / 2.0) ** (2 * power)
    step = 360.0 / len(d_deg)
    return D / (D.sum() * step)


def point_density(p, f, d):
    """(nf, nd) variance density in m^2/Hz/deg for one parametrised point."""
    nf, nd = len(f), len(d)
    k = p["kind"]
    if k == "empty":
        return np.zeros((nf, nd))
    if k == "random":
        rng = np.random.default_rng(p["seed"])
        E = rng.uniform(0, 1, (nf, nd)) * p["hs"] ** 2 / 16 / 360
        E[rng.uniform(size=(nf, nd)) < p.get("zero_fraction", 0.3)] = 0.0
        return E
    E = jonswap_1d(f, p["hs"], p["fp"], p.get("gamma", 3.3))[:, None] * spreading(d, p["theta"], p["power"])[None, :]
    if k in ("swell_sea", "cross_chop"):
        E = E + jonswap_1d(f, p["hs2"], p["fp2"], 5.0)[:, None] * spreading(d, p["theta2"], 20)[None, :]
    if k == "opposing_seas":
        E = E + jonswap_1d(f, p["hs2"], p["fp2"], p.get("gamma", 3.3))[:, None] * spreading(d, p["theta2"], p["power"])[None, :]
    if p.get("positive_floor"):
        E = E + 1e-9 * (E.max() if E.max() > 0 else 1.0)
    return E


@st.composite
def point(draw, kinds=("jonswap", "jonswap", "pm", "swell_sea", "random", "empty"), steep=None):
    k = draw(st.sampled_from(list(kinds)))
    p = {"kind": k}
    if k == "empty":
        return p
    fp = draw(fl(0.08, 0.35))
    if steep is None:
        steepness = draw(log_uniform(0.005, 0.07))
    else:
        steepness = draw(fl(*steep))
    # Hs from steepness = Hs / (g Tp^2 / 2 pi)
    hs = steepness * G / (2 * math.pi * fp ** 2)
    p.update({"hs": float(min(hs, 15.0)), "fp": fp, "gamma": 1.0 if k == "pm" else draw(fl(1.0, 5.0)),
              "theta": draw(fl(0.0, 360.0)), "power": draw(st.sampled_from([1, 2, 5, 10, 25]))})
    if k == "swell_sea":
        p.update({"hs2": draw(fl(0.3, 3.0)), "fp2": draw(fl(0.05, 0.09)), "theta2": draw(fl(0.0, 360.0))})
    if k == "cross_chop":
        # a short oblique high-frequency component: the wave-supported stress then points away from the
        # dissipation-weighted wave direction (first guess of the wind direction)
        off = draw(fl(30.0, 120.0)) * draw(st.sampled_from([-1.0, 1.0]))
        p.update({"hs2": p["hs"] * draw(fl(0.05, 0.3)), "fp2": fp * draw(fl(1.8, 3.0)), "theta2": (p["theta"] + off) % 360.0})
    if k == "opposing_seas":
        # two wind seas of similar peak frequency running against each other (turning winds, reflections off a coast):
        # two separated sectors of steep waves at the same frequencies. The weaker one has 50-85 % of the height, so the
        # dissipation-weighted mean direction stays well defined.
        off = draw(fl(150.0, 210.0))
        # both systems steep enough to break (two separated saturated sectors), narrow enough to stay separated
        st_ = draw(fl(0.045, 0.09))
        p["hs"] = float(min(st_ * G / (2 * math.pi * fp ** 2), 15.0))
        p["power"] = draw(st.sampled_from([5, 10, 25]))
        p.update({"hs2": p["hs"] * draw(fl(0.7, 0.92)), "fp2": fp * draw(fl(0.95, 1.05)), "theta2": (p["theta"] + off) % 360.0})
    if k == "random":
        p["seed"] = draw(st.integers(0, 2 ** 32 - 1))
        p["zero_fraction"] = draw(st.sampled_from([0.0, 0.3, 0.8]))
    return p


@st.composite
def sea_case(draw, max_points=8, nds=(16, 24, 36), kinds=None, steep=None, max_nf=30, min_nf=8, t0_choices=("zero",),
             nonuniform_dirs=False):
    n = draw(st.integers(1, max_points))
    nf = draw(st.integers(min_nf, max_nf))
    nd = draw(st.sampled_from(list(nds)))
    if min_nf <= nd <= max_nf + 8 and draw(st.integers(0, 3)) == 0:
        nf = nd          # square spectra (as many frequencies as directions): axes cannot be told apart by their length
    fk = draw(st.sampled_from(["geometric", "uniform"]))
    f0 = draw(fl(0.03, 0.06))
    t0k = draw(st.sampled_from(list(t0_choices)))
    t0 = 0.0 if t0k == "zero" else (180.0 / nd if t0k == "half" else draw(fl(0.0, 359.0)))
    kw = {} if kinds is None else {"kinds": kinds}
    pts = [draw(point(steep=steep, **kw)) for _ in range(n)]
    dep = []
    for _ in range(n):
        c = draw(st.integers(0, 3))
        dep.append(float("inf") if c < 2 else draw(log_uniform(5.0, 500.0)))
    # depth-limited seas: a parametric sea cannot be higher than about 0.6 of the water depth (breaking limit); without
    # this cap the generator produced 15 m waves in 7 m of water, for which the roughness / inversion solvers wander
    for p, d_ in zip(pts, dep):
        if p.get("hs") is not None and math.isfinite(d_):
            p["hs"] = float(min(p["hs"], 0.6 * d_))
            if "hs2" in p:
                p["hs2"] = float(min(p["hs2"], 0.3 * d_))
    extra = {}
    if nonuniform_dirs and draw(st.integers(0, 2)) == 0:
        extra["dir_jitter"] = [draw(fl(-0.3, 0.3)) for _ in range(nd)]
    return {**extra, "nf": nf, "nd": nd, "fkind": fk, "f0": f0, "fmax": draw(fl(0.5, 1.0)), "t0": t0, "points": pts, "depth": dep,
            "u10": [draw(fl(1.0, 40.0)) for _ in range(n)],
            "wdir": [draw(st.one_of(fl(0.0, 360.0), st.sampled_from([0.0, 90.0, 180.0, 270.0]))) for _ in range(n)]}


def axes(c):
    f = freq_axis(c["fkind"], c["nf"], c["f0"], c.get("fmax"))
    d = c["t0"] + np.arange(c["nd"]) * 360.0 / c["nd"]
    if c.get("dir_jitter"):
        # non-uniform direction grid: every node moved by less than 0.3 of the nominal bin (order is kept)
        d = d + np.array(c["dir_jitter"]) * 360.0 / c["nd"]
    return f, d % 360.0


def densities(c):
    f, d = axes(c)
    return np.stack([point_density(p, f, d) for p in c["points"]])


def build(c, E=None, depth=None):
    """FrequencyDirectionSpectrum with dims (time, frequency, direction)."""
    from ocean_science_utilities.wavespectra.spectrum import FrequencyDirectionSpectrum
    f, d = axes(c)
    E = densities(c) if E is None else E
    n = E.shape[0]
    t = (np.arange(n) * 3600 + 1_600_000_000).astype("int64").astype("datetime64[s]").astype("datetime64[ns]")
    dep = np.array(c["depth"] if depth is None else depth, dtype=float)[:n]
    ds = xarray.Dataset(
        data_vars={"variance_density": (("time", "frequency", "direction"), E.copy()),
                   "latitude": (("time",), np.zeros(n)), "longitude": (("time",), np.zeros(n)),
                   "depth": (("time",), dep)},
        coords={"time": t, "frequency": f, "direction": d})
    return FrequencyDirectionSpectrum(ds)


def da(values, spec):
    return xarray.DataArray(np.asarray(values, dtype=float), dims=("time",), coords={"time": spec.dataset["time"].values})


def steps(c):
    """Independent frequency (midpoint rule with mirrored ends) and direction steps."""
    f, d = axes(c)
    fe = np.concatenate(([2 * f[0] - f[1]], f, [2 * f[-1] - f[-2]]))
    df = 0.5 * (fe[2:] - fe[:-2])
    dd = np.mod(np.roll(d, -1) - d + 180.0, 360.0) - 180.0
    return df, dd


def prime_terms(c, gen=None, dis=None, balance=None, positive=False):
    """Use source-term objects once on a spectrum whose grid has the SAME shape as the case's but other
    frequencies and directions (in practice a balance object is created once and applied to many spectra):
    nothing of that call may carry over to the evaluation of the case."""
    other = dict(c, fkind="uniform" if c["fkind"] == "geometric" else "geometric", f0=c["f0"] * 1.7,
                 fmax=c.get("fmax", 0.8) * 0.6, t0=(c["t0"] + 360.0 / c["nd"] * 0.37) % 360.0,
                 points=[{"kind": "jonswap", "hs": 1.5, "fp": 0.2, "gamma": 2.0, "theta": 200.0, "power": 2,
                          "positive_floor": positive}],
                 depth=[25.0])
    so = build(other)
    u, a = da([9.0], so), da([170.0], so)
    if gen is not None:
        gen.rate(so, u, a, roughness_length=da([1e-4], so))
        gen.bulk_rate(so, u, a)
    if dis is not None:
        dis.rate(so)
        dis.bulk_rate(so)
    if balance is not None:
        from ocean_science_utilities.wavephysics.windestimate import estimate_u10_from_source_terms
        estimate_u10_from_source_terms(so, balance)
