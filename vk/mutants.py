"""Sensitivity protocol: apply one string-edit mutant at a time to a scratch copy of the
repository source and run a property's quick check against it (VERIF_REPO=<scratch>).
Not part of the registered commands.   python -m vk.mutants [--property C07] [--seeds 1,2,3]
"""
import argparse
import json
import os
import shutil
import subprocess
import sys
import tempfile
import time

VERIF = os.path.dirname(os.path.dirname(os.path.abspath(__file__)))
PKG = "src/ocean_science_utilities"

# (property, name, file, old, new)
from .mutant_table import MUTANTS  # noqa: E402


def run_one(prop, name, file, old, new, seed, tier="quick", only=None):
    scratch = tempfile.mkdtemp(prefix="vkmut_")
    try:
        shutil.copytree("/repo/src", os.path.join(scratch, "src"),
                        ignore=shutil.ignore_patterns("__pycache__", "*.egg-info"))
        p = os.path.join(scratch, PKG, file)
        s = open(p).read()
        if s.count(old) != 1:
            return {"error": f"pattern occurs {s.count(old)} times"}
        open(p, "w").write(s.replace(old, new))
        env = dict(os.environ, VERIF_REPO=scratch, VERIF_SEED=str(seed), PYTHONHASHSEED="0",
                   VK_OUT_ROOT=os.path.join(scratch, "out"),
                   VK_NUMBA_CACHE_BASE=os.path.join(scratch, "numba"))
        cmd = [sys.executable, "-m", "vk", "run", "--property", prop, "--tier", tier]
        if only:
            cmd += ["--only", only]
        t = time.time()
        r = subprocess.run(cmd, cwd=VERIF, env=env, capture_output=True, text=True)
        lines = [l for l in r.stdout.splitlines() if l.startswith(("VIOLATION", "HARNESS", "KNOWN"))]
        return {"rc": r.returncode, "killed": r.returncode == 1, "wall": round(time.time() - t, 1),
                "lines": [l[:260] for l in lines[:4]],
                "tail": (r.stdout + r.stderr)[-600:] if r.returncode not in (0, 1) else ""}
    finally:
        shutil.rmtree(scratch, ignore_errors=True)
        # remove numba cache dirs created for the mutant (keep unchanged-tree cache)
        

def main():
    ap = argparse.ArgumentParser()
    ap.add_argument("--property", default=None)
    ap.add_argument("--seeds", default="1")
    ap.add_argument("--name", default=None)
    ap.add_argument("--tier", default="quick")
    ap.add_argument("--jobs", type=int, default=4)
    args = ap.parse_args()
    seeds = [int(x) for x in args.seeds.split(",")]
    todo = [m for m in MUTANTS if (args.property is None or m[0] == args.property.upper())
            and (args.name is None or args.name in m[1])]
    from concurrent.futures import ThreadPoolExecutor
    results = {}

    def job(m, seed):
        return (m, seed, run_one(*m[:5], seed, tier=args.tier))

    with ThreadPoolExecutor(args.jobs) as ex:
        for m, seed, r in ex.map(lambda a: job(*a), [(m, s) for m in todo for s in seeds]):
            key = f"{m[0]}:{m[1]}"
            results.setdefault(key, {})[seed] = r
            print(key, "seed", seed, "KILLED" if r.get("killed") else "SURVIVED", r.get("wall"),
                  r.get("error", ""), (r.get("lines") or [""])[0][:200], r.get("tail", "")[-300:])
            sys.stdout.flush()
    out = os.path.join(VERIF, "notes", "sensitivity")
    os.makedirs(out, exist_ok=True)
    tag = (args.property or "all").upper()
    path = os.path.join(out, f"{tag}.json")
    merged = {}
    if os.path.exists(path):
        try:
            with open(path) as fh:
                merged = json.load(fh)
        except ValueError:
            merged = {}
    for k, v in results.items():
        merged.setdefault(k, {}).update({str(s): r for s, r in v.items()})
    valid = {f"{m[0]}:{m[1]}" for m in MUTANTS}
    merged = {k: v for k, v in merged.items() if k in valid}
    with open(path, "w") as fh:
        json.dump(merged, fh, indent=1, sort_keys=True)
    killed = sum(1 for k, v in results.items() if all(r.get("killed") for r in v.values()))
    print(f"killed {killed}/{len(results)} at all seeds")


if __name__ == "__main__":
    main()
