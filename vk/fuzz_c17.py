"""Coverage-guided fuzz target (atheris / libFuzzer) for C17: ISO-8601 strings.

Run as a subprocess by vk/checks/c17.py (thorough tier):
    python -m vk.fuzz_c17 <workdir> -runs=N -seed=S [corpus_dir]

The semantic oracle lives inside the target:
  * differential: strings matching the reference grammar
        YYYY-MM-DDTHH:MM:SS[.f{1,6}][Z|+HH:MM|-HH:MM]
    are parsed by an independent integer parser (days-from-civil arithmetic, no datetime module) and
    the library's result must denote exactly that instant, be tz-aware with zero offset;
  * metamorphic (any accepted string): formatting the result and parsing it again returns the same
    instant; a string ending in 'Z' equals the same string ending in '+00:00'.
Strings the library rejects with ValueError are fine (contract: raises on invalid input).
A failure writes <workdir>/failure.json and raises, which makes libFuzzer save the input and exit.
Counters are flushed to <workdir>/stats.json every 2000 executions (atexit does not run under atheris).
"""
import json
import os
import re
import sys

WORK = sys.argv[1]
sys.argv = [sys.argv[0]] + sys.argv[2:]

from . import boot  # noqa: E402

boot.boot()
sys.path.append(boot.DEPS)
import atheris  # noqa: E402

with atheris.instrument_imports(include=["ocean_science_utilities.tools.time"]):
    from ocean_science_utilities.tools import time as T  # noqa: E402

from datetime import datetime, timedelta, timezone  # noqa: E402

EPOCH = datetime(1970, 1, 1, tzinfo=timezone.utc)
GRAMMAR = re.compile(r"^(\d{4})-(\d{2})-(\d{2})T(\d{2}):(\d{2}):(\d{2})(?:\.(\d{1,6}))?(Z|[+-]\d{2}:\d{2})?$")
ALPHABET = "0123456789-:T.Z+ "
STATS = {"executions": 0, "accepted": 0, "grammar": 0, "grammar_with_offset": 0, "rejected": 0, "samples": []}


def days_from_civil(y, m, d):
    y -= m <= 2
    era = (y if y >= 0 else y - 399) // 400
    yoe = y - era * 400
    doy = (153 * (m + (-3 if m > 2 else 9)) + 2) // 5 + d - 1
    doe = yoe * 365 + yoe // 4 - yoe // 100 + doy
    return era * 146097 + doe - 719468


def reference_us(s):
    m = GRAMMAR.match(s)
    if not m:
        return None
    y, mo, d, hh, mi, ss = (int(m.group(i)) for i in range(1, 7))
    if not (1 <= y <= 9999 and 1 <= mo <= 12 and hh <= 23 and mi <= 59 and ss <= 59):
        return None
    mdays = [31, 29 if (y % 4 == 0 and (y % 100 != 0 or y % 400 == 0)) else 28, 31, 30, 31, 30, 31, 31, 30, 31, 30, 31]
    if not 1 <= d <= mdays[mo - 1]:
        return None
    frac = m.group(7) or ""
    us = int((frac + "000000")[:6]) if frac else 0
    off = 0
    z = m.group(8)
    if z and z != "Z":
        oh, om = int(z[1:3]), int(z[4:6])
        if oh > 23 or om > 59:
            return None
        off = (oh * 60 + om) * (1 if z[0] == "+" else -1)
    total = ((days_from_civil(y, mo, d) * 24 + hh) * 60 + mi - off) * 60 + ss
    return total * 10 ** 6 + us


def fail(kind, s, detail):
    with open(os.path.join(WORK, "failure.json"), "w") as fh:
        json.dump({"clause": kind, "input": s, "detail": detail}, fh)
    flush()
    raise AssertionError(f"{kind}: {s!r}: {detail}")


def flush():
    with open(os.path.join(WORK, "stats.json"), "w") as fh:
        json.dump(STATS, fh)


def target(data):
    # Structure-aware decoding: datetime.fromisoformat is C code, so there is no coverage gradient to
    # follow; the bytes are decoded into the fields of an ISO string (mostly well-formed, sometimes with
    # one character edited) so that executions reach the conversion logic instead of dying in parsing.
    fdp = atheris.FuzzedDataProvider(data)
    mode = fdp.ConsumeIntInRange(0, 9)
    if mode == 0:
        s = "".join(ALPHABET[b % len(ALPHABET)] for b in fdp.ConsumeBytes(40))
    else:
        y = fdp.ConsumeIntInRange(1970, 2100) if fdp.ConsumeBool() else fdp.ConsumeIntInRange(1, 9999)
        mo = fdp.ConsumeIntInRange(1, 12)
        d = fdp.ConsumeIntInRange(1, 31 if mode < 3 else 28)
        s = f"{y:04d}-{mo:02d}-{d:02d}T{fdp.ConsumeIntInRange(0, 23):02d}:{fdp.ConsumeIntInRange(0, 59):02d}:" \
            f"{fdp.ConsumeIntInRange(0, 59):02d}"
        nd = fdp.ConsumeIntInRange(0, 6)
        if nd:
            s += "." + f"{fdp.ConsumeIntInRange(0, 10 ** nd - 1):0{nd}d}"
        z = fdp.ConsumeIntInRange(0, 3)
        if z == 1:
            s += "Z"
        elif z >= 2:
            s += ("+" if z == 2 else "-") + f"{fdp.ConsumeIntInRange(0, 14):02d}:{fdp.ConsumeIntInRange(0, 3) * 15:02d}"
        if mode == 9 and s:
            i = fdp.ConsumeIntInRange(0, len(s) - 1)
            s = s[:i] + ALPHABET[fdp.ConsumeIntInRange(0, len(ALPHABET) - 1)] + s[i + 1:]
    STATS["executions"] += 1
    if STATS["executions"] % 2000 == 0:
        flush()
    if not s:
        return
    try:
        res = T.to_datetime_utc(s)
    except (ValueError, OverflowError):
        # OverflowError: years 1 / 9999 pushed out of datetime's range by the offset (far outside 1970-2100)
        STATS["rejected"] += 1
        if reference_us(s) is not None and 1 <= int(s[:4]) <= 9999:
            ref = reference_us(s)
            # instants outside datetime's range after the offset shift are legitimately rejected
            if 0 <= ref + 62135596800 * 10 ** 6 < 315537897600 * 10 ** 6:
                fail("valid_iso_string_rejected", s, "ValueError")
        return
    STATS["accepted"] += 1
    if not isinstance(res, datetime) or res.tzinfo is None or res.utcoffset() != timedelta(0):
        fail("result_is_utc_aware", s, repr(res))
    got = (res - EPOCH) // timedelta(microseconds=1)
    ref = reference_us(s)
    if ref is not None:
        STATS["grammar"] += 1
        if s[-1] not in "Z0123456789" or "+" in s[10:] or s.count("-") > 2:
            STATS["grammar_with_offset"] += 1
        if len(STATS["samples"]) < 8 and STATS["grammar"] % 50 == 1:
            STATS["samples"].append(s)
        if got != ref:
            fail("same_instant", s, f"library {got} us, reference {ref} us")
    try:
        back = T.to_datetime_utc(T.datetime_to_iso_time_string(res))
    except (ValueError, OverflowError):
        back = None   # strftime pads years < 1000 differently; outside the property's 1970-2100 range
    if back is not None and res.year >= 1000 and back != res:
        fail("iso_string_roundtrip", s, f"{res!r} -> {back!r}")
    if s.endswith("Z"):
        try:
            alt = T.to_datetime_utc(s[:-1] + "+00:00")
        except (ValueError, OverflowError):
            alt = None
        if alt is not None and alt != res:
            fail("Z_means_plus_zero", s, f"{res!r} vs {alt!r}")


def encode(text):
    return bytes(ALPHABET.index(ch) for ch in text)


SEEDS = ["2022-11-09T10:20:42Z", "2022-11-09T10:20:42", "2022-11-09T10:20:42.123456+05:30", "1970-01-01T00:00:00.5-12:00",
         "2099-12-31T23:59:59.999999+14:00", "2000-02-29T12:00:00.1Z", "2022-11-09T10:20:42+00:00", "2038-01-19T03:14:08-03:45"]


def main():
    if len(sys.argv) > 1 and not sys.argv[-1].startswith("-") and os.environ.get("VK_FUZZ_SEED_CORPUS") == "1":
        os.makedirs(sys.argv[-1], exist_ok=True)
        for i, t in enumerate(SEEDS):
            with open(os.path.join(sys.argv[-1], f"seed{i}"), "wb") as fh:
                fh.write(encode(t))
    atheris.Setup(sys.argv, target)
    atheris.Fuzz()


if __name__ == "__main__":
    main()
