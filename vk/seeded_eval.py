"""Confirm an independently written breaking change and run the checks against it.

    python -m vk.seeded_eval <name> <property> <patch.diff> <demo.py> [--checks C18,C19] [--in-repo]

Steps (all in scratch worktrees outside /repo and /verif unless --in-repo):
  1. fresh worktree of /repo HEAD; demo must exit 0;
  2. apply the patch; demo must exit non-zero; the pinned test-suite must pass exactly as on HEAD;
  3. run the quick check(s) against the patched tree (VERIF_REPO=<worktree>, or, with --in-repo,
     `git -C /repo apply` ... `git -C /repo checkout -- .`) and record whether a VIOLATION is reported;
  4. write seeded/<name>/{patch.diff, demo.py, meta.json}; remove the worktree.
"""
import argparse
import json
import os
import shutil
import subprocess
import sys
import tempfile
import time

VERIF = os.path.dirname(os.path.dirname(os.path.abspath(__file__)))
PY = "/venv/bin/python"
SUITE = ["-m", "pytest", "-q", "-p", "no:cacheprovider", "--timeout=900", "--continue-on-collection-errors", "tests"]


def sh(cmd, cwd=None, env=None, timeout=3600):
    r = subprocess.run(cmd, cwd=cwd, env=env, capture_output=True, text=True, timeout=timeout)
    return r.returncode, r.stdout + r.stderr


def suite(tree):
    env = dict(os.environ, PYTHONPATH=os.path.join(tree, "src"))
    rc, out = sh([PY] + SUITE + ["-rA"], cwd=tree, env=env)
    passed = sorted(l.split()[1] for l in out.splitlines() if l.startswith("PASSED "))
    tail = [l for l in out.splitlines() if " passed" in l or " failed" in l][-1:] or [""]
    return passed, tail[0]


def main():
    ap = argparse.ArgumentParser()
    ap.add_argument("name")
    ap.add_argument("property")
    ap.add_argument("patch")
    ap.add_argument("demo")
    ap.add_argument("--checks", default=None)
    ap.add_argument("--in-repo", action="store_true")
    ap.add_argument("--needs", default="")
    ap.add_argument("--description", default="")
    ap.add_argument("--skip-suite", action="store_true")
    args = ap.parse_args()
    checks = (args.checks or args.property).split(",")
    root = tempfile.mkdtemp(prefix="seedchk_", dir="/tmp")
    tree = os.path.join(root, "tree")
    meta = {"name": args.name, "property": args.property, "description": args.description,
            "needs_to_manifest": args.needs, "ran": []}
    try:
        rc, out = sh(["git", "-C", "/repo", "worktree", "add", "-q", "--detach", tree, "HEAD"])
        assert rc == 0, out
        head = sh(["git", "-C", "/repo", "rev-parse", "--short", "HEAD"])[1].strip()
        meta["repo_head"] = head
        env = dict(os.environ, PYTHONPATH=os.path.join(tree, "src"))
        demo = os.path.join(root, "demo.py")
        shutil.copy(args.demo, demo)
        rc0, out0 = sh([PY, demo], cwd=root, env=env)
        meta["demo_exit_without_change"] = rc0
        base_pass, base_line = ([], "skipped") if args.skip_suite else suite(tree)
        rc, out = sh(["git", "-C", tree, "apply", os.path.abspath(args.patch)])
        assert rc == 0, "patch does not apply: " + out
        rc1, out1 = sh([PY, demo], cwd=root, env=env)
        meta["demo_exit_with_change"] = rc1
        meta["demo_output_with_change"] = out1[-600:]
        new_pass, new_line = ([], "skipped") if args.skip_suite else suite(tree)
        meta["suite_without_change"] = base_line
        meta["suite_with_change"] = new_line
        meta["suite_pass_set_unchanged"] = base_pass == new_pass
        meta["confirmed"] = bool(rc0 == 0 and rc1 != 0 and base_pass == new_pass)
        meta["ran"].append(f"demo on HEAD {head}: exit {rc0}; with patch: exit {rc1}; suite: '{base_line}' vs '{new_line}'")
        results = {}
        for chk in checks:
            t = time.time()
            out_root = os.path.join(root, "out_" + chk)
            if args.in_repo:
                rc, o = sh(["git", "-C", "/repo", "apply", os.path.abspath(args.patch)])
                assert rc == 0, o
                try:
                    envc = dict(os.environ, VK_OUT_ROOT=out_root, PYTHONHASHSEED="0")
                    rc, o = sh([PY, "-m", "vk", "run", "--property", chk, "--tier", "quick"], cwd=VERIF, env=envc)
                finally:
                    sh(["git", "-C", "/repo", "checkout", "--", "."])
                how = "git -C /repo apply; quick check; git -C /repo checkout -- ."
            else:
                envc = dict(os.environ, VERIF_REPO=tree, VK_OUT_ROOT=out_root, PYTHONHASHSEED="0",
                            VK_NUMBA_CACHE_BASE=os.path.join(root, "numba"))
                rc, o = sh([PY, "-m", "vk", "run", "--property", chk, "--tier", "quick"], cwd=VERIF, env=envc)
                how = "quick check with VERIF_REPO=<scratch worktree with the patch applied>"
            lines = [l[:400] for l in o.splitlines() if l.startswith(("VIOLATION", "HARNESS-ERROR", "KNOWN"))]
            results[chk] = {"exit": rc, "caught": rc == 1, "wall_s": round(time.time() - t, 1), "lines": lines[:4], "how": how}
            meta["ran"].append(f"{chk}: {how} -> exit {rc}")
        meta["checks"] = results
        dest = os.path.join(VERIF, "seeded", args.name)
        os.makedirs(dest, exist_ok=True)
        shutil.copy(args.patch, os.path.join(dest, "patch.diff"))
        shutil.copy(args.demo, os.path.join(dest, "demo.py"))
        with open(os.path.join(dest, "meta.json"), "w") as fh:
            json.dump(meta, fh, indent=1)
        print(json.dumps({k: meta[k] for k in ("name", "confirmed", "demo_exit_without_change", "demo_exit_with_change",
                                               "suite_with_change")}, indent=0))
        for k, v in results.items():
            print(k, "CAUGHT" if v["caught"] else f"MISSED(exit {v['exit']})", v["wall_s"], (v["lines"] or [""])[0][:300])
    finally:
        sh(["git", "-C", "/repo", "worktree", "remove", "--force", tree])
        shutil.rmtree(root, ignore_errors=True)


if __name__ == "__main__":
    main()
