"""Re-run the quick check(s) against an already confirmed seeded change (after a check was strengthened).

    python -m vk.seeded_recheck <seeded name> [--checks C06,C05] [--seed N] [--note "..."]

Applies seeded/<name>/patch.diff in a fresh scratch worktree of /repo HEAD (outside /repo and /verif), runs the
quick check with VERIF_REPO pointing at it, records the outcome under meta.json["checks"] (the first result is kept
as "first_result") and removes the worktree with its numba cache.
"""
import argparse
import json
import os
import shutil
import subprocess
import tempfile
import time

VERIF = os.path.dirname(os.path.dirname(os.path.abspath(__file__)))
PY = "/venv/bin/python"


def sh(cmd, cwd=None, env=None, timeout=3600):
    r = subprocess.run(cmd, cwd=cwd, env=env, capture_output=True, text=True, timeout=timeout)
    return r.returncode, r.stdout + r.stderr


def main():
    ap = argparse.ArgumentParser()
    ap.add_argument("name")
    ap.add_argument("--checks", default=None)
    ap.add_argument("--seed", default="1")
    ap.add_argument("--note", default="")
    args = ap.parse_args()
    dest = os.path.join(VERIF, "seeded", args.name)
    meta = json.load(open(os.path.join(dest, "meta.json")))
    checks = (args.checks or meta["property"]).split(",")
    root = tempfile.mkdtemp(prefix="seedre_", dir="/tmp")
    tree = os.path.join(root, "tree")
    try:
        rc, out = sh(["git", "-C", "/repo", "worktree", "add", "-q", "--detach", tree, "HEAD"])
        assert rc == 0, out
        rc, out = sh(["git", "-C", tree, "apply", os.path.join(dest, "patch.diff")])
        assert rc == 0, "patch does not apply: " + out
        for chk in checks:
            t = time.time()
            envc = dict(os.environ, VERIF_REPO=tree, VK_OUT_ROOT=os.path.join(root, "out_" + chk), PYTHONHASHSEED="0",
                        VERIF_SEED=str(args.seed), VK_NUMBA_CACHE_BASE=os.path.join(root, "numba"))
            rc, o = sh([PY, "-m", "vk", "run", "--property", chk, "--tier", "quick"], cwd=VERIF, env=envc)
            lines = [l[:400] for l in o.splitlines() if l.startswith(("VIOLATION", "HARNESS-ERROR"))]
            res = {"exit": rc, "caught": rc == 1, "wall_s": round(time.time() - t, 1), "lines": lines[:4], "seed": int(args.seed),
                   "how": "quick check with VERIF_REPO=<scratch worktree with the patch applied> (re-run after the check was extended)"}
            if args.note:
                res["note"] = args.note
            old = meta.setdefault("checks", {}).get(chk)
            if old is not None and "first_result" not in old:
                res["first_result"] = {k: old.get(k) for k in ("exit", "caught", "lines")}
            elif old is not None:
                res["first_result"] = old["first_result"]
            meta["checks"][chk] = res
            meta.setdefault("ran", []).append(f"{chk}: re-run at seed {args.seed} after extending the check -> exit {rc}")
            print(args.name, chk, "CAUGHT" if rc == 1 else f"MISSED(exit {rc})", res["wall_s"], (lines or [""])[0][:300])
        with open(os.path.join(dest, "meta.json"), "w") as fh:
            json.dump(meta, fh, indent=1)
    finally:
        sh(["git", "-C", "/repo", "worktree", "remove", "--force", tree])
        shutil.rmtree(root, ignore_errors=True)


if __name__ == "__main__":
    main()
