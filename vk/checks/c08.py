"""C08 — source terms: sign, support, scaling; bulk rates integrate the spectral rates."""
import math

import numpy as np
from hypothesis import strategies as st

from ..gen import windsea as W
from ..gen.common import fl
from ..harness import SubCheck, require

META = {
    "level": "exploration",
    "rule": ("generated batches (1..4 base points + derived points c*E, E2, E+E2, and an empty spectrum) of JONSWAP/PM "
             "wind seas, swell+sea mixtures and random non-negative spectra with zero bins on (nf 8..30) x (nd in "
             "{16,24,36}) grids, a third of them with non-uniform direction bins (nodes moved by < 0.3 bin); U10 1..40 m/s or friction-velocity input, all wind directions; finite/infinite depth; "
             "ST4 input with WAM tail stress; ST4 / ST6 / Romero (strictly positive spectra) dissipation; non-default "
             "parameter sets (+-50 %). Non-trivial = bulk dissipation < 0 and bulk input > 0 for some point; "
             "distinct = sha1 of the case."
             " Wind directions are also written in (-180,180] or one turn further on; a fifth of the cases are square (nf == nd); batch independence is asserted with explicit and with implicit roughness."
             " One case in six holds pond-scale seas (centimetres high, peaked near 1 Hz, grid to 3-4 Hz)."),
    "assumptions": [
        "exact clauses use an explicit roughness length exp(-12..-3) m; the implicit-roughness path is exercised for the imbalance clauses and points whose roughness is NaN are counted as undefined_roughness (C10 allows NaN)",
        "'no downwind component' is asserted where cos(theta-theta_w) <= -1e-9 (the bins within rounding of exactly 90 degrees may go either way)",
        "linearity in E at fixed roughness: 1e-12 relative; bulk = sum(rate*df*dtheta) with independently computed steps: 1e-10 relative to sum|terms| (fastmath reduction)",
        "in half of the cases the source-term objects have been used before on a spectrum with another grid of the same shape (object reuse); every clause must hold regardless",
        "a quarter of the cases store the densities (0..200) and U10 in int64 arrays (the single-point comparison uses the same storage type)",
        "batch independence: each point equals its single-point evaluation within 1e-13 of the field maximum (bit-for-bit equality of jitted kernels is not stable across machines)",
    ],
}

GEN_DEFAULTS = ["growth_parameter_betamax", "wave_age_tuning_parameter", "charnock_constant"]
DIS_PARAMS = {
    "st4": ["saturation_breaking_constant", "saturation_threshold", "cumulative_breaking_constant"],
    "st6": ["a1", "a2", "saturation_threshold"],
    "romero": ["saturation_breaking_constant", "saturation_threshold", "breaking_probability_constant"],
}


def _factory():
    from ocean_science_utilities.wavephysics.balance import factory
    return factory


@st.composite
def case(draw):
    dk = draw(st.sampled_from(["st4", "st4", "st6", "romero"]))
    kinds = ("jonswap", "pm", "swell_sea") if dk == "romero" else ("jonswap", "jonswap", "pm", "swell_sea", "random")
    steep = draw(st.sampled_from([None, (0.03, 0.09), (0.03, 0.09)]))
    c = draw(W.sea_case(max_points=4, kinds=kinds, max_nf=24, steep=steep, t0_choices=("zero", "zero", "half", "any"),
                        nonuniform_dirs=True))
    if dk == "romero":
        for p in c["points"]:
            p["positive_floor"] = True
    n = len(c["points"])
    if draw(st.integers(0, 5)) == 0:
        # pond / wave-tank scale seas: centimetres high, peaked near 1 Hz, steep (dissipating) although their total
        # variance is below 1e-4 m^2; the grid reaches 3-4 Hz
        import math as _m
        c["fmax"] = draw(fl(3.0, 4.0))
        c["nf"] = max(c["nf"], 20)
        for p in c["points"]:
            if p["kind"] in ("jonswap", "pm"):
                p["fp"] = draw(fl(0.9, 1.4))
                p["hs"] = float(draw(fl(0.04, 0.08)) * W.G / (2 * _m.pi * p["fp"] ** 2))
        c["pond_scale"] = True
    c.update({
        "dissipation": dk,
        "log_z0": [draw(fl(-12.0, -3.0)) for _ in range(n)],
        "input_type": draw(st.sampled_from(["u10", "u10", "friction_velocity", "ustar"])),   # "ustar" is the documented alias
        "scale": draw(st.sampled_from([2.0, 0.5, 3.7, 10.0])),
        "pick": draw(st.integers(0, n - 1)),
        "wdir_convention": draw(st.sampled_from(["0_360", "0_360", "pm180", "plus_360"])),
        "gen_params": {k: draw(fl(0.5, 1.5)) for k in GEN_DEFAULTS} if draw(st.integers(0, 2)) == 0 else {},
        "dis_params": {k: draw(fl(0.5, 1.5)) for k in DIS_PARAMS[dk]} if draw(st.integers(0, 2)) == 0 else {},
        "viscous": draw(st.sampled_from([0.0, 0.0, 0.1])),
        "dedt_fraction": draw(st.sampled_from([0.0, 0.2, -0.2])),
        "reuse_terms": draw(st.booleans()),
        # densities (and U10) as stored in integer arrays: same values, another storage type
        "integer_storage": draw(st.integers(0, 3)) == 0,
    })
    return c


def make_terms(c):
    fac = _factory()
    gen = fac.create_wind_source_term("st4")
    dis = fac.create_breaking_dissipation(c["dissipation"])
    gp = dict(gen._parameters)
    for k, m in c["gen_params"].items():
        gp[k] = gp[k] * m
    gp["viscous_stress_parameter"] = c["viscous"]
    gen._parameters = gp
    dp = dict(dis._parameters)
    for k, m in c["dis_params"].items():
        dp[k] = dp[k] * m
    dis._parameters = dp
    return gen, dis, fac


def run(c):
    from ocean_science_utilities.wavephysics.balance.balance import SourceTermBalance
    gen, dis, fac = make_terms(c)
    if c.get("reuse_terms"):
        W.prime_terms(c, gen, dis, positive=c["dissipation"] == "romero")
    f, d = W.axes(c)
    df, dd = W.steps(c)
    E = W.densities(c)                       # (n, nf, nd)
    n = E.shape[0]
    sc = c["scale"]
    ints = bool(c.get("integer_storage"))
    if ints:
        # integer-valued densities 0..200 (>= 1 for Romero); derived points use integer-preserving combinations
        E = np.round(E / max(float(E.max()), 1e-300) * 200.0)
        if c["dissipation"] == "romero":
            E = np.maximum(E, 1.0)
        sc = sc if sc in (2.0, 10.0) else 2.0
        E2 = np.roll(E[0], 3, axis=1) + 2.0 * E[(1 % n)]
        floor = 1.0 if c["dissipation"] == "romero" else 0.0
    else:
        # batch: base points, then scaled copy of point 0, a partner for point 0, their sum, and an empty sea
        E2 = np.roll(E[0], 3, axis=1)[::-1][::-1] * 0.5 + E[(1 % n)] * 0.25
        floor = 1e-9 * E.max() if c["dissipation"] == "romero" else 0.0
    extra = np.stack([E[0] * sc, E2, E[0] + E2, np.zeros_like(E[0]) + floor])
    Eb = np.concatenate([E, extra])
    nb = Eb.shape[0]
    rep = lambda x: list(x) + [x[0]] * 4
    depth = rep(c["depth"])
    spec = W.build(c, Eb, depth)
    if ints:
        spec.dataset["variance_density"] = spec.dataset["variance_density"].astype("int64")
    if c["input_type"] == "u10":
        speed_v = rep(c["u10"])
        if ints:
            speed_v = [float(max(1, round(u))) for u in speed_v]
    else:
        speed_v = [u / 28.0 for u in rep(c["u10"])]
    speed = W.da(speed_v, spec)
    if ints and c["input_type"] == "u10":
        speed = speed.astype("int64")
    wdir_v = rep(c["wdir"])
    # the same wind directions written in another convention: (-180,180], or one turn further on
    conv = c.get("wdir_convention", "0_360")
    if conv == "pm180":
        wdir_v = [w - 360.0 if w > 180.0 else w for w in wdir_v]
    elif conv == "plus_360":
        wdir_v = [w + 360.0 for w in wdir_v]
    wdir = W.da(wdir_v, spec)
    z0 = W.da(np.exp(rep(c["log_z0"])), spec)
    it = c["input_type"]
    classes = ["dissipation_" + c["dissipation"], "input_" + it, f"nd{c['nd']}"]
    if c.get("reuse_terms"):
        classes.append("term_objects_used_before_on_another_grid_of_the_same_shape")
    if ints:
        classes.append("integer_stored_density_and_u10")
    if c.get("dir_jitter"):
        classes.append("non_uniform_direction_grid")
    classes.append("wind_direction_convention_" + conv)
    if c.get("pond_scale"):
        classes.append("pond_scale_seas_peaked_near_1Hz")
    if c["nf"] == c["nd"]:
        classes.append("square_spectrum_nf_equals_nd")

    R = np.asarray(gen.rate(spec, speed, wdir, roughness_length=z0, wind_speed_input_type=it).values)
    require(R.shape == Eb.shape and np.isfinite(R).all(), "wind_input_finite", f"shape={R.shape}")
    require((R >= 0).all(), "wind_input_non_negative", lambda: f"min={R.min()!r}")
    require((R[Eb == 0] == 0).all(), "wind_input_zero_without_energy", "")
    for i in range(nb):
        cosm = np.cos(np.radians((d - wdir_v[i] + 180.0) % 360.0 - 180.0))
        off = cosm <= -1e-9
        require((R[i][:, off] == 0).all(), "wind_input_zero_without_downwind_component",
                lambda: f"point {i} wind_dir={wdir_v[i]} max={R[i][:, off].max()!r}")
    i0, isc, i2, isum, iempty = 0, n, n + 1, n + 2, n + 3
    scale0 = max(float(np.abs(R[i0]).max()), 1e-300)
    require(np.abs(R[isc] - sc * R[i0]).max() <= 1e-12 * sc * scale0, "wind_input_proportional_to_density",
            lambda: f"c={sc} max rel diff={np.abs(R[isc] - sc * R[i0]).max() / (sc * scale0):.3e}")
    ssum = max(float(np.abs(R[isum]).max()), 1e-300)
    require(np.abs(R[isum] - (R[i0] + R[i2])).max() <= 1e-12 * ssum, "wind_input_additive_in_density",
            lambda: f"max rel diff={np.abs(R[isum] - (R[i0] + R[i2])).max() / ssum:.3e}")
    Bg = np.asarray(gen.bulk_rate(spec, speed, wdir, roughness_length=z0, wind_speed_input_type=it).values)
    terms = R * df[None, :, None] * dd[None, None, :]
    ref = terms.sum(axis=(1, 2))
    require(Bg.shape == (nb,) and (np.abs(Bg - ref) <= 1e-10 * np.abs(terms).sum(axis=(1, 2)) + 1e-300).all(),
            "bulk_input_is_integral_of_spectral_input", lambda: f"bulk={Bg} ref={ref}")

    # the same identity on the implicit-roughness path (roughness estimated from the spectrum), for the
    # wind-input type of this case: bulk_rate and rate must use the same roughness
    Rimp = np.asarray(gen.rate(spec, speed, wdir, wind_speed_input_type=it).values)
    Bimp = np.asarray(gen.bulk_rate(spec, speed, wdir, wind_speed_input_type=it).values)
    timp = Rimp * df[None, :, None] * dd[None, None, :]
    refimp = timp.sum(axis=(1, 2))
    defined = np.isfinite(Rimp).all(axis=(1, 2))
    okimp = (np.abs(Bimp - refimp) <= 1e-10 * np.abs(timp).sum(axis=(1, 2)) + 1e-300) | ~defined
    require(okimp.all(), "bulk_input_is_integral_of_spectral_input_implicit_roughness",
            lambda: f"input={it}: bulk={Bimp} integral of rate={refimp}")
    require((np.isnan(Bimp) == ~defined).all(), "bulk_input_defined_where_spectral_input_is",
            lambda: f"input={it}: bulk={Bimp} rate defined={defined}")

    D = np.asarray(dis.rate(spec).values)
    require(D.shape == Eb.shape and np.isfinite(D).all(), "dissipation_finite", f"{D.shape}")
    require((D <= 0).all(), "dissipation_non_positive", lambda: f"max={D.max()!r}")
    require((D[Eb == 0] == 0).all(), "dissipation_zero_without_energy", "")
    if floor == 0.0:
        require((D[iempty] == 0).all(), "dissipation_zero_for_empty_spectrum", "")
    Bd = np.asarray(dis.bulk_rate(spec).values)
    tD = D * df[None, :, None] * dd[None, None, :]
    refd = tD.sum(axis=(1, 2))
    require(Bd.shape == (nb,) and (np.abs(Bd - refd) <= 1e-10 * np.abs(tD).sum(axis=(1, 2)) + 1e-300).all(),
            "bulk_dissipation_is_integral_of_spectral_dissipation", lambda: f"bulk={Bd} ref={refd}")

    # batch independence
    j = c["pick"]
    s1 = W.build(c, Eb[j:j + 1], [depth[j]])
    sp1 = W.da([speed_v[j]], s1)
    if ints:
        # same storage type as the batch: the property compares a point with itself alone, not int64 with float64
        # storage (on the pinned tree ST6/Romero truncate the directionally integrated spectrum of integer input,
        # see DESIGN section 5, observations)
        s1.dataset["variance_density"] = s1.dataset["variance_density"].astype("int64")
        if it == "u10":
            sp1 = sp1.astype("int64")
    R1 = np.asarray(gen.rate(s1, sp1, W.da([wdir_v[j]], s1), roughness_length=W.da([float(z0.values[j])], s1),
                             wind_speed_input_type=it).values)
    require(np.abs(R1[0] - R[j]).max() <= 1e-13 * max(float(np.abs(R[j]).max()), 1e-300),
            "batch_point_equals_single_evaluation_wind_input",
            lambda: f"point {j} max diff={np.abs(R1[0] - R[j]).max()!r}")
    # ... and on the implicit-roughness path (the roughness of a point is solved from that point's spectrum and wind
    # only; the iteration is the same sequence of operations alone and in a batch, hence 1e-9 and not solver tolerance);
    # for the picked point and the last base point (whatever an earlier point of the batch left behind)
    for jj in sorted({j, n - 1}):
        sj = W.build(c, Eb[jj:jj + 1], [depth[jj]])
        spj = W.da([speed_v[jj]], sj)
        if ints:
            sj.dataset["variance_density"] = sj.dataset["variance_density"].astype("int64")
            if it == "u10":
                spj = spj.astype("int64")
        R1imp = np.asarray(gen.rate(sj, spj, W.da([wdir_v[jj]], sj), wind_speed_input_type=it).values)
        if np.isfinite(R1imp).all() or np.isfinite(Rimp[jj]).all():
            require(np.isfinite(R1imp).all() and np.isfinite(Rimp[jj]).all(),
                    "batch_point_equals_single_evaluation_wind_input_implicit_roughness",
                    lambda: f"point {jj}: defined alone={bool(np.isfinite(R1imp).all())} "
                            f"in batch={bool(np.isfinite(Rimp[jj]).all())}")
            require(np.abs(R1imp[0] - Rimp[jj]).max() <= 1e-9 * max(float(np.abs(Rimp[jj]).max()), 1e-300),
                    "batch_point_equals_single_evaluation_wind_input_implicit_roughness",
                    lambda: f"point {jj} of {nb} max diff={np.abs(R1imp[0] - Rimp[jj]).max()!r} "
                            f"field max={float(np.abs(Rimp[jj]).max())!r}")
            classes.append("implicit_roughness_batch_vs_single_compared")
    D1 = np.asarray(dis.rate(s1).values)
    require(np.abs(D1[0] - D[j]).max() <= 1e-13 * max(float(np.abs(D[j]).max()), 1e-300),
            "batch_point_equals_single_evaluation_dissipation",
            lambda: f"point {j} max diff={np.abs(D1[0] - D[j]).max()!r}")

    # imbalance (implicit roughness; u10 input only)
    bal = SourceTermBalance(gen, dis)
    u10 = W.da(rep(c["u10"]), spec)
    dE = Eb * c["dedt_fraction"] * 1e-5
    dspec = W.build(c, dE, depth) if c["dedt_fraction"] else None
    Ri = np.asarray(gen.rate(spec, u10, wdir).values)
    imb = np.asarray(bal.evaluate_imbalance(u10, wdir, spec, dspec).values)
    ref_imb = Ri + D - (dE if dspec is not None else 0.0)
    okp = np.isfinite(Ri).all(axis=(1, 2))
    undefined = int((~okp).sum())
    sci = np.maximum(np.abs(Ri).max(axis=(1, 2)), np.abs(D).max(axis=(1, 2)))[:, None, None] + 1e-300
    good = (np.abs(imb - ref_imb) <= 1e-12 * sci) | ~okp[:, None, None]
    require(good.all(), "imbalance_is_generation_plus_dissipation_minus_rate_of_change",
            lambda: f"max diff={np.nanmax(np.abs(imb - ref_imb))!r}")
    Bi = np.asarray(gen.bulk_rate(spec, u10, wdir).values)
    bimb = np.asarray(bal.evaluate_bulk_imbalance(u10, wdir, spec, dspec).values)
    m0 = (np.asarray(dspec.m0().values) if dspec is not None else 0.0)
    refb = Bi + Bd - m0
    scb = np.abs(Bi) + np.abs(Bd) + 1e-300
    require(((np.abs(bimb - refb) <= 1e-12 * scb) | ~okp).all(), "bulk_imbalance_definition",
            lambda: f"{bimb} vs {refb}")
    if dspec is not None:
        # the supplied rate of change enters with its own m0 (trapezoid in f); report only
        classes.append("with_rate_of_change")
    if undefined:
        classes.append("undefined_roughness")
    if any(math.isfinite(x) for x in c["depth"]):
        classes.append("finite_depth")
    if c["gen_params"] or c["dis_params"]:
        classes.append("non_default_parameters")
    if n > 1:
        classes.append("batch_gt_1")
    nontriv = bool(((Bd[:n] < 0) & (Bg[:n] > 0)).any())
    return {"nontrivial": nontriv, "classes": classes, "excluded": {"undefined_roughness_points": undefined}}


SUBCHECKS = [
    SubCheck("source_terms", lambda tier: case(), run, {"quick": 45, "thorough": 400}),
]


def warmup():
    c = {"nf": 8, "nd": 16, "fkind": "geometric", "f0": 0.05, "t0": 0.0,
         "points": [{"kind": "jonswap", "hs": 2.0, "fp": 0.12, "gamma": 3.3, "theta": 30.0, "power": 5}],
         "depth": [float("inf")], "u10": [10.0], "wdir": [30.0], "dissipation": "st4", "log_z0": [-8.0],
         "input_type": "u10", "scale": 2.0, "pick": 0, "gen_params": {}, "dis_params": {}, "viscous": 0.0,
         "dedt_fraction": 0.2}
    for dk in ("st4", "st6", "romero"):
        c["dissipation"] = dk
        c["points"][0]["positive_floor"] = dk == "romero"
        run(c)
    c["input_type"] = "friction_velocity"
    run(c)
