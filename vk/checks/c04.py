"""C04 — peak parameters locate the maximum of e(f) inside the requested band."""
import math

import numpy as np
from hypothesis import strategies as st

from ..gen import spectra as GS
from ..harness import SubCheck, require
from ..oracle import spec as O
from .c03 import DEG, dir_of, peak_ref, spread_of
from .c07 import omega_of

META = {
    "level": "exploration",
    "rule": ("generated 1D/2D spectra incl. multi-peaked, plateaus with exact ties (3-value palette), monotone "
             "(peak at first/last bin), NaN bins, batches of 1..8 whose members peak at different bins and have "
             "different depths (finite/inf/NaN), dims () included, x every band kind. Bands without a finite "
             "positive in-band value for some spectrum have no peak and are excluded (counted). Non-trivial = "
             ">= 2 local maxima or an exact tie or the band cuts off the global peak or a batch with >= 2 distinct "
             "peak indices; distinct = sha1 of the case."),
    "assumptions": [
        "oracle: first index attaining max of in-band finite e(f) (2D: e from an independent direction sum)",
        "2D cases whose two largest in-band e values agree within 1e-9 relative are skipped for index equality (summation order may flip a rounding-level tie); 1D ties are exact and checked strictly",
        "peak wavenumber: |sqrt(g k tanh(k d)) - 2 pi f_p| <= 1e-3 * 2 pi f_p with d=inf for NaN/inf depth; spectra peaking at f=0 are excluded from this clause (omega=0 is outside the solver domain)",
    ],
}


@st.composite
def case(draw):
    kinds = ["plateau", "plateau", "multipeak", "multipeak", "monotone", "random", "nan", "sparse", "smooth"]
    if draw(st.integers(0, 2)) == 0:
        s = draw(GS.spec2d_case(max_nf=20, max_nd=24, max_cells=6000, kinds=kinds, max_len=4, history=True, dtypes=True))
    else:
        s = draw(GS.spec1d_case(kinds=kinds, max_len=8, layouts=["none", "t", "t", "tl", "flat"], history=True, dtypes=True))
    b = draw(GS.band(s["f"], kinds=("default", "default", "random", "random", "grid", "grid", "single", "empty")))
    return {"spec": s, **b}


def _arr(x, dtype=float):
    return np.asarray(x.values if hasattr(x, "values") else x, dtype=dtype)


def run(c):
    sc = c["spec"]
    a = GS.case_arrays(sc)
    f, n = a["f"], a["n"]
    nf = len(f)
    shape = tuple(a["shape"])
    fmin, fmax = c["fmin"], c["fmax"]
    two_d = sc["kind"] == "2d"
    if two_d:
        e, a1, b1, _, _ = O.moments_2d(a["e"], a["dir"])
    else:
        e, a1, b1 = a["e"], a["a1"], a["b1"]
    idx, amb, has = peak_ref(f, e, fmin, fmax)
    classes = ["band_" + c["band"], "layout_" + sc["layout"], "spec_" + sc["kind"], "values_" + sc["values"]]
    if sc.get("history"):
        classes.append("object_modified_in_place_after_earlier_queries")
    if sc.get("memory"):
        classes.append("stored_arrays_" + sc["memory"] + "_layout")
    if sc.get("dtype"):
        classes.append("density_stored_as_" + sc["dtype"])
    spec = GS.build(sc)
    ar = np.arange(n)
    nontriv = False
    excluded = {}
    if not has.all():
        excluded["band_without_energy"] = 1
    else:
        strict = ~amb if two_d else np.ones(n, dtype=bool)
        gi = _arr(spec.peak_index(fmin, fmax), dtype=np.int64)
        require(gi.shape == shape, "peak_index_shape", f"{gi.shape} vs {shape}")
        gi = gi.reshape(n)
        require((gi[strict] == idx[strict]).all(), "peak_index_is_first_in_band_maximum",
                lambda: f"band=[{fmin!r},{fmax!r}) got={gi} ref={idx} e={e[~(gi == idx)][:1]!r}")
        # whatever index the code picks must be in band and attain the maximum (also for rounding ties)
        m = O.band_mask(f, fmin, fmax)
        require(m[gi].all(), "peak_index_inside_band", f"idx={gi} f={f[gi]} band=[{fmin},{fmax})")
        gf = _arr(spec.peak_frequency(fmin, fmax)).reshape(n)
        require((gf == f[gi]).all(), "peak_frequency_is_grid_frequency_at_index", f"{gf} vs {f[gi]}")
        gp = _arr(spec.peak_period(fmin, fmax)).reshape(n)
        with np.errstate(all="ignore"):
            require(O.close(gp, 1.0 / f[gi], rel=1e-15).all(), "peak_period_is_reciprocal", f"{gp} vs {1 / f[gi]}")
            rd = dir_of(a1, b1)
            rs = spread_of(np.asarray(a1), np.asarray(b1))
            Rf = np.hypot(a1, b1)
        gd = _arr(spec.peak_direction(fmin, fmax)).reshape(n)
        gs = _arr(spec.peak_directional_spread(fmin, fmax)).reshape(n)
        with np.errstate(all="ignore"):
            tol = 1e-9 / np.maximum(Rf[ar, gi], 1e-300) + 1e-10
            dd = np.abs(O.wrap180(gd - rd[ar, gi]))
            okd = (dd <= tol) | ~(Rf[ar, gi] >= 1e-3) | (np.isnan(gd) & np.isnan(rd[ar, gi]))
        require(okd.all(), "peak_direction_is_per_frequency_value_at_index", lambda: f"{gd} vs {rd[ar, gi]}")
        with np.errstate(all="ignore"):
            oks = (np.abs((gs / DEG) ** 2 - (rs[ar, gi] / DEG) ** 2) <= 1e-11) | (np.isnan(gs) & np.isnan(rs[ar, gi]))
        require(oks.all(), "peak_spread_is_per_frequency_value_at_index", lambda: f"{gs} vs {rs[ar, gi]}")
        # non-triviality
        for i in range(n):
            row = np.where(np.isfinite(e[i]), e[i], -np.inf)
            inband = np.where(m, row, -np.inf)
            loc = 0
            for j in range(nf):
                left = inband[j - 1] if j > 0 else -np.inf
                right = inband[j + 1] if j + 1 < nf else -np.inf
                if inband[j] > -np.inf and inband[j] >= left and inband[j] >= right and inband[j] > 0:
                    loc += 1
            tie = int((inband == inband.max()).sum()) > 1
            cut = row.max() > inband.max()
            if loc >= 2 or tie or cut:
                nontriv = True
            if tie:
                classes.append("exact_tie")
            if cut:
                classes.append("band_cuts_global_peak")
        if len(set(idx.tolist())) >= 2:
            nontriv = True
            classes.append("batch_distinct_peaks")
        if (idx == 0).any() or (idx == nf - 1).any():
            classes.append("peak_at_grid_end")

    # peak wavenumber (default band)
    idx0, amb0, has0 = peak_ref(f, e, 0.0, np.inf)
    if has0.all():
        k = _arr(spec.peak_wavenumber)
        require(k.shape == shape, "peak_wavenumber_shape", f"{k.shape} vs {shape}")
        k = k.reshape(n)
        gi0 = _arr(spec.peak_index(), dtype=np.int64).reshape(n)
        # the banded queries above must not have changed what the object reports for the full range
        strict0 = ~amb0 if two_d else np.ones(n, dtype=bool)
        require((gi0[strict0] == idx0[strict0]).all(), "peak_index_full_range_after_banded_queries",
                lambda: f"earlier band=[{fmin!r},{fmax!r}) got={gi0} ref={idx0}")
        dep = np.where(np.isnan(a["depth"]), np.inf, a["depth"])
        for i in range(n):
            w = 2 * math.pi * f[gi0[i]]
            if w == 0:
                excluded["peak_at_zero_frequency"] = excluded.get("peak_at_zero_frequency", 0) + 1
                continue
            require(math.isfinite(k[i]) and k[i] > 0, "peak_wavenumber_positive", f"k={k[i]}")
            res = abs(omega_of(float(k[i]), float(dep[i])) - w)
            require(res <= 1e-3 * w * (1 + 1e-9), "peak_wavenumber_satisfies_dispersion_at_own_depth",
                    f"point {i}: f_p={f[gi0[i]]} depth={a['depth'][i]} k={k[i]!r} rel.residual={res / w:.3e}")
        if len(set(dep.tolist())) > 1:
            classes.append("batch_distinct_depths")
        if np.isnan(a["depth"]).any():
            classes.append("nan_depth")
    return {"nontrivial": nontriv, "classes": sorted(set(classes)), "excluded": excluded}


SUBCHECKS = [
    SubCheck("peak", lambda tier: case(), run, {"quick": 700, "thorough": 5000}),
]
