"""C03 — mean/peak direction and spread follow their definitions and rotate with the sea."""
import math

import numpy as np
from hypothesis import strategies as st

from ..gen import spectra as GS
from ..harness import SubCheck, require
from ..oracle import spec as O

DEG = 180.0 / math.pi
MAX_SPREAD = math.sqrt(2.0) * DEG  # 81.03

META = {
    "level": "exploration",
    "rule": ("(i) generated 1D spectra with moments inside the unit disc (all quadrants, clusters at the +-180 "
             "and 0 seams, near-isotropic) x every band kind; (ii) generated non-negative 2D spectra on uniform "
             "grids of 8..144 bins with arbitrary start, rolled by k bins (k in 0..N-1) and mirrored (grids closed "
             "under negation). Non-trivial = resultant R >= 1e-3 (direction well conditioned) and, for (ii), "
             "k != 0 or mirror; distinct = sha1 of the case."
             " 1D moments include nearly unidirectional seas (radius 1-10^-u, u in 3..7.5)."),
    "assumptions": [
        "A,B = trapz(a1*e)/m0, trapz(b1*e)/m0 over the half-open band with missing moments counted as 0 (as the code documents); NaN-free e for the 1D definition check",
        "direction tolerance 1e-9/R degrees (atan2 conditioning), compared modulo 360; spread compared through sigma^2=2(1-R) with 1e-11 rad^2",
        "peak-based clauses are skipped (counted as 'ambiguous_peak') when the two largest in-band e(f) values agree within 1e-9 relative: rotation changes summation order, so an exact tie may legitimately flip",
    ],
}


def _arr(x):
    return np.asarray(x.values if hasattr(x, "values") else x, dtype=float)


def spread_of(A, B):
    """sqrt(2(1-R)); mathematically R <= 1, so a radius that the oracle's own rounding puts within 1e-12 above one
    (all energy in one direction bin) is one - otherwise the reference itself would be NaN."""
    with np.errstate(all="ignore"):
        R = np.sqrt(np.asarray(A, dtype=float) ** 2 + np.asarray(B, dtype=float) ** 2)
        R = np.where((R > 1) & (R < 1 + 1e-12), 1.0, R)
        return np.sqrt(2 - 2 * R) * DEG


def dir_of(A, B):
    return np.arctan2(B, A) * DEG


def check_dir(name, got, ref, R, extra=""):
    got = np.asarray(got, dtype=float)
    ref = np.asarray(ref, dtype=float)
    R = np.asarray(R, dtype=float)
    with np.errstate(all="ignore"):
        tol = 1e-9 / np.maximum(R, 1e-300) + 1e-10
        d = np.abs(O.wrap180(got - ref))
        ok = (d <= tol) | ~(R >= 1e-3) | (np.isnan(got) & np.isnan(ref))
    require(ok.all(), name, lambda: f"got={got[~ok][:3]!r} ref={ref[~ok][:3]!r} R={R[~ok][:3]!r} {extra}")


def check_spread(name, got, ref, extra=""):
    got = np.asarray(got, dtype=float)
    ref = np.asarray(ref, dtype=float)
    with np.errstate(all="ignore"):
        d = np.abs((got / DEG) ** 2 - (ref / DEG) ** 2)
        ok = (d <= 1e-11) | (np.isnan(got) & np.isnan(ref))
    require(ok.all(), name, lambda: f"got={got[~ok][:3]!r} ref={ref[~ok][:3]!r} {extra}")


def peak_ref(f, e, fmin, fmax):
    """(index, ambiguous) of the first maximum of in-band finite e; e: (n, nf)."""
    m = O.band_mask(f, fmin, fmax)
    x = np.where(m[None, :] & np.isfinite(e), e, -np.inf)
    idx = x.argmax(axis=-1)
    top = np.sort(x, axis=-1)
    amb = np.zeros(len(x), dtype=bool)
    if x.shape[-1] >= 2:
        with np.errstate(all="ignore"):
            amb = np.abs(top[:, -1] - top[:, -2]) <= 1e-9 * np.abs(top[:, -1])
    has = np.isfinite(top[:, -1]) & (top[:, -1] > 0)
    return idx, amb, has


# ----------------------------------------------------------------------------- (i) 1D definitions
@st.composite
def case_1d(draw):
    s = draw(GS.spec1d_case(kinds=["smooth", "random", "sparse", "plateau", "random"], history=True))
    b = draw(GS.band(s["f"]))
    return {"spec": s, **b}


def run_1d(c):
    sc = c["spec"]
    a = GS.case_arrays(sc)
    f, n = a["f"], a["n"]
    shape = tuple(a["shape"])
    spec = GS.build(sc)
    fmin, fmax = c["fmin"], c["fmax"]
    e = a["e"]
    ref = {}
    for m in ("a1", "b1", "a2", "b2"):
        val, abs_terms, m0 = O.weighted_mean(f, a[m], e, fmin, fmax)
        ref[m] = val
        got = _arr(getattr(spec, "mean_" + m)(fmin, fmax))
        require(got.shape == shape, "result_shape", f"mean_{m}: {got.shape} vs {shape}")
        with np.errstate(all="ignore"):
            ok = O.close(got.reshape(n), val, rel=0, abs_=1e-12) | ~(m0 > 0)
        require(ok.all(), f"mean_{m}_is_energy_weighted_average",
                lambda: f"band=[{fmin!r},{fmax!r}) got={got.reshape(n)[~ok][:3]!r} ref={val[~ok][:3]!r}")
    A, B = ref["a1"], ref["b1"]
    R = np.hypot(A, B)
    gd = _arr(spec.mean_direction(fmin, fmax)).reshape(n)
    gs = _arr(spec.mean_directional_spread(fmin, fmax)).reshape(n)
    valid = np.isfinite(A) & np.isfinite(B)
    check_dir("mean_direction_is_atan2", gd[valid], dir_of(A, B)[valid], R[valid], f"band=[{fmin},{fmax})")
    check_spread("mean_spread_definition", gs[valid], spread_of(A, B)[valid])
    require(((gd[valid] >= -180) & (gd[valid] <= 180)).all(), "direction_in_-180_180", f"{gd}")
    require(((gs[valid] >= 0) & (gs[valid] <= MAX_SPREAD + 1e-9)).all(), "spread_in_0_81", f"{gs}")
    # per-frequency variants
    with np.errstate(all="ignore"):
        pd_ = _arr(spec.mean_direction_per_frequency).reshape(n, len(f))
        ps = _arr(spec.mean_spread_per_frequency).reshape(n, len(f))
        rd = dir_of(a["a1"], a["b1"])
        rs = spread_of(a["a1"], a["b1"])
    require(O.close(pd_, rd, rel=0, abs_=1e-10).all(), "per_frequency_direction", "")
    require(O.close(ps, rs, rel=0, abs_=1e-9).all(), "per_frequency_spread", "")
    fin = np.isfinite(pd_)
    require(((pd_[fin] >= -180) & (pd_[fin] <= 180)).all(), "direction_in_-180_180", "per-frequency")
    fin = np.isfinite(a["a1"]) & np.isfinite(a["b1"])
    require((np.isfinite(ps[fin]) & (ps[fin] >= 0) & (ps[fin] <= MAX_SPREAD + 1e-9)).all(), "spread_in_0_81",
            "per-frequency")
    # peak variants
    idx, amb, has = peak_ref(f, e, fmin, fmax)
    if has.all():
        gpd = _arr(spec.peak_direction(fmin, fmax)).reshape(n)
        gps = _arr(spec.peak_directional_spread(fmin, fmax)).reshape(n)
        ar = np.arange(n)
        require(O.close(gpd, rd[ar, idx], rel=0, abs_=1e-10).all(), "peak_direction_uses_peak_moments",
                lambda: f"{gpd} vs {rd[ar, idx]} idx={idx}")
        require(O.close(gps, rs[ar, idx], rel=0, abs_=1e-9).all(), "peak_spread_uses_peak_moments", "")
    # the definitions hold for every later query of the same object, whatever was asked before: after the banded
    # queries above, the full-range averages must still be those of the spectrum as supplied
    for m in ("a1", "b1"):
        val, _, m0 = O.weighted_mean(f, a[m], e, 0.0, float("inf"))
        got = _arr(getattr(spec, "mean_" + m)()).reshape(n)
        with np.errstate(all="ignore"):
            ok = O.close(got, val, rel=0, abs_=1e-12) | ~(m0 > 0)
        require(ok.all(), f"mean_{m}_full_range_after_banded_queries",
                lambda: f"earlier band=[{fmin!r},{fmax!r}) got={got[~ok][:3]!r} ref={val[~ok][:3]!r}")
    classes = ["band_" + c["band"], "layout_" + sc["layout"], "moments_" + sc["moment_kind"]]
    if sc.get("history"):
        classes.append("object_modified_in_place_after_earlier_queries")
    if sc.get("memory"):
        classes.append("stored_arrays_" + sc["memory"] + "_layout")
    nontriv = bool((valid & (R >= 1e-3)).any())
    if valid.any() and (np.abs(np.abs(dir_of(A, B)[valid]) - 180) < 5).any():
        classes.append("mean_direction_near_seam_180")
    return {"nontrivial": nontriv, "classes": classes}


# ----------------------------------------------------------------------------- (ii) 2D rotation / mirror
@st.composite
def case_2d(draw):
    mirror = draw(st.booleans())
    nd = draw(st.integers(8, 144))
    delta = 360.0 / nd
    if mirror:
        t0 = draw(st.sampled_from([0.0, delta / 2]))
    else:
        t0 = draw(st.one_of(st.sampled_from([0.0, delta / 2]), st.floats(0.0, 359.99)))
    s = draw(GS.spec2d_case(max_nf=14, allowed_nd=[nd], uniform_only=True, max_cells=8000, max_len=2, history=True,
                            kinds=["smooth", "smooth", "random", "sparse", "plateau", "nan", "unidirectional"]))
    s["dir"] = [float((t0 + j * delta) % 360.0) for j in range(nd)]
    s["dir_kind"] = "uniform"
    k = draw(st.one_of(st.integers(0, nd - 1), st.sampled_from([1, nd - 1, nd // 2])))
    b = draw(GS.band(s["f"], kinds=("default", "default", "random", "grid", "grid", "single", "empty")))
    return {"spec": s, "k": int(k % nd), "mirror": mirror, "t0": t0, **b}


def transform(sc, k, mirror, t0):
    a = GS.case_arrays(sc)
    E = a["e"]
    nd = E.shape[-1]
    if mirror:
        # theta -> -theta: grid closed under negation for t0 in {0, delta/2}
        if t0 == 0.0:
            idx = (-np.arange(nd)) % nd
        else:
            idx = nd - 1 - np.arange(nd)
        E = E[..., idx]
    E = np.roll(E, k, axis=-1)
    sc2 = dict(sc)
    sc2["e"] = E.reshape(-1).tolist()
    return sc2


def run_2d(c):
    sc = c["spec"]
    k, mirror = c["k"], c["mirror"]
    a = GS.case_arrays(sc)
    f, n, d = a["f"], a["n"], a["dir"]
    nd = len(d)
    delta = 360.0 / nd
    fmin, fmax = c["fmin"], c["fmax"]
    s0 = GS.build(sc)
    s1 = GS.build(transform(sc, k, mirror, c["t0"]))
    sign = -1.0 if mirror else 1.0
    shift = k * delta

    # definitions against the independent oracle (2D)
    e, ra1, rb1, _, _ = O.moments_2d(a["e"], d)
    A, _, m0 = O.weighted_mean(f, ra1, e, fmin, fmax)
    B, _, _ = O.weighted_mean(f, rb1, e, fmin, fmax)
    R = np.hypot(A, B)
    valid = np.isfinite(A) & np.isfinite(B) & (m0 > 0)
    g0 = _arr(s0.mean_direction(fmin, fmax)).reshape(n)
    gs0 = _arr(s0.mean_directional_spread(fmin, fmax)).reshape(n)
    check_dir("mean_direction_is_atan2", g0[valid], dir_of(A, B)[valid], R[valid])
    Rc = np.minimum(R, 1.0)
    with np.errstate(all="ignore"):
        check_spread("mean_spread_definition", gs0[valid], (np.sqrt(2 - 2 * Rc) * DEG)[valid])
    require(((g0[valid] >= -180) & (g0[valid] <= 180)).all(), "direction_in_-180_180", f"{g0}")
    require((np.isfinite(gs0[valid]) & (gs0[valid] >= 0) & (gs0[valid] <= MAX_SPREAD + 1e-9)).all(),
            "spread_in_0_81", lambda: f"spread={gs0[valid]} R={R[valid]!r}")

    # metamorphic: rotation / mirror
    g1 = _arr(s1.mean_direction(fmin, fmax)).reshape(n)
    check_dir("mean_direction_rotates", g1[valid], (sign * g0 + shift)[valid], R[valid],
              f"k={k} mirror={mirror} N={nd}")
    gs1 = _arr(s1.mean_directional_spread(fmin, fmax)).reshape(n)
    check_spread("mean_spread_invariant", gs1[valid], gs0[valid], f"k={k} mirror={mirror}")
    for name in ("hm0", "tm01", "tm02"):
        x0 = _arr(getattr(s0, name)(fmin, fmax)).reshape(n)
        x1 = _arr(getattr(s1, name)(fmin, fmax)).reshape(n)
        require(O.close(x1, x0, rel=1e-9, abs_=1e-300).all(), f"{name}_invariant", lambda: f"{x1} vs {x0}")
    # per-frequency
    pos = e > 0
    with np.errstate(all="ignore"):
        p0 = _arr(s0.mean_direction_per_frequency).reshape(n, len(f))
        p1 = _arr(s1.mean_direction_per_frequency).reshape(n, len(f))
        q0 = _arr(s0.mean_spread_per_frequency).reshape(n, len(f))
        q1 = _arr(s1.mean_spread_per_frequency).reshape(n, len(f))
        Rf = np.hypot(ra1, rb1)
    check_dir("per_frequency_direction_is_atan2", p0[pos], dir_of(ra1, rb1)[pos], Rf[pos])
    check_dir("per_frequency_direction_rotates", p1[pos], (sign * p0 + shift)[pos], Rf[pos], f"k={k} mirror={mirror}")
    check_spread("per_frequency_spread_invariant", q1[pos], q0[pos])
    # peak variants
    idx, amb, has = peak_ref(f, e, fmin, fmax)
    classes = ["mirror" if mirror else "rotate", "layout_" + sc["layout"], "band_" + c["band"], "values_" + sc["values"]]
    if sc.get("history"):
        classes.append("object_modified_in_place_after_earlier_queries")
    if sc.get("memory"):
        classes.append("stored_arrays_" + sc["memory"] + "_layout")
    if has.all() and not amb.any():
        ar = np.arange(n)
        pf0 = _arr(s0.peak_frequency(fmin, fmax)).reshape(n)
        pf1 = _arr(s1.peak_frequency(fmin, fmax)).reshape(n)
        require((pf0 == f[idx]).all(), "peak_frequency_definition", f"{pf0} vs {f[idx]}")
        require((pf1 == pf0).all(), "peak_frequency_invariant", f"{pf1} vs {pf0}")
        pd0 = _arr(s0.peak_direction(fmin, fmax)).reshape(n)
        pd1 = _arr(s1.peak_direction(fmin, fmax)).reshape(n)
        Rp = Rf[ar, idx]
        check_dir("peak_direction_is_atan2_at_peak", pd0, dir_of(ra1, rb1)[ar, idx], Rp)
        check_dir("peak_direction_rotates", pd1, sign * pd0 + shift, Rp, f"k={k} mirror={mirror}")
        ps0 = _arr(s0.peak_directional_spread(fmin, fmax)).reshape(n)
        ps1 = _arr(s1.peak_directional_spread(fmin, fmax)).reshape(n)
        check_spread("peak_spread_invariant", ps1, ps0)
    elif amb.any():
        classes.append("ambiguous_peak")
    if k:
        classes.append("k_nonzero")
    nontriv = bool((valid & (R >= 1e-3)).any()) and (k != 0 or mirror)
    return {"nontrivial": nontriv, "classes": classes}


SUBCHECKS = [
    SubCheck("definitions_1d", lambda tier: case_1d(), run_1d, {"quick": 400, "thorough": 4000}),
    SubCheck("rotation_2d", lambda tier: case_2d(), run_2d, {"quick": 220, "thorough": 2500}),
]
