"""C13 — linear interpolation: exact at nodes, bounded, no extrapolation, NaN-aware."""
import numpy as np
from hypothesis import strategies as st

from ..gen import spectra as GS
from ..gen.common import fl
from ..harness import SubCheck, require
from ..oracle import interp as OI
from ..oracle import spec as O

META = {
    "level": "exploration",
    "rule": ("generated datasets (1-3 variables of rank 1-4, interpolated axis in any position, variables "
             "without the coordinate) on random non-uniform grids of 2..40 nodes, ascending/descending, numeric "
             "or datetime64 'time' axes; targets inside / outside both ends / exactly on nodes and end points, "
             "scalar or array; NaN patterns (whole node slices, scattered elements); linear and nearest; "
             "two-coordinate grid interpolation; 1D and 2D spectra in time and frequency. Non-trivial = >= 1 "
             "target strictly between two nodes whose values differ; distinct = sha1 of the case."
             " Targets include points 1e-7..1e-10 of the span inside or outside an end node."),
    "assumptions": [
        "reference: independent bracket search + weights; value=(1-t)v0+t v1 within 1e-12*(|v0|+|v1|); node targets must equal the node data exactly",
        "NaN rule: valid weight W of non-missing neighbours, result = renormalised value if W>1/2 else NaN; for scattered NaNs either the node-wise reading (a neighbour is missing if any element of its slice is NaN - what the code does) or the element-wise reading is accepted",
        "nearest: node with the larger weight; targets within 1e-12 of half way accept either node",
        "NaN threshold: a valid weight within 1e-12 of one half that is not exactly one half in rational arithmetic accepts either outcome (equally valid float evaluations of the weight differ in the last bit); exactly one half must give a missing value",
        "datetime grids and targets are generated in every datetime64 unit (ns, s, ms, us), independently of each other",
        "datetime targets are whole seconds (the library converts 'time' targets through to_datetime64, which truncates to seconds)",
        "spectra: NaN-free values; 1D moments compared with interp(a1*e)/interp(e) at 1e-9 where interp(e) > 1e-9*max(e)",
    ],
}

T0 = 1_600_000_000


def _ds_axis():
    from ocean_science_utilities.interpolate.dataset import interpolate_dataset_along_axis
    return interpolate_dataset_along_axis


# ----------------------------------------------------------------------------- generators
@st.composite
def grid_nodes(draw, kind, min_n=2, max_n=40):
    n = draw(st.one_of(st.integers(min_n, 6), st.integers(min_n, max_n)))
    desc = draw(st.integers(0, 2)) == 0
    if kind == "time":
        steps = draw(st.lists(st.integers(1, 7200), min_size=n - 1, max_size=n - 1))
        x = [T0 + draw(st.integers(0, 10 ** 6))]
        for s in steps:
            x.append(x[-1] + s)
    else:
        steps = draw(st.lists(fl(0.01, 5.0), min_size=n - 1, max_size=n - 1))
        x = [draw(fl(-50.0, 50.0))]
        for s in steps:
            x.append(x[-1] + s)
        x = [float(v) for v in x]
    if desc:
        x = x[::-1]
    return x


@st.composite
def targets_for(draw, xp, kind, max_targets=8):
    lo, hi = min(xp), max(xp)
    n = draw(st.integers(1, max_targets))
    out = []
    for _ in range(n):
        c = draw(st.sampled_from(["inside", "inside", "inside", "node", "end", "below", "above", "mid", "near_end"]))
        if c == "near_end" and kind != "time":
            # a hair inside or outside an end node (1e-7 .. 1e-10 of the span): still inside / already outside
            e_ = draw(st.sampled_from([lo, hi]))
            # (not a single ulp: for a descending grid the library works in the frame x0 - x, in which an ulp of a small
            # coordinate is below the rounding of the difference - which side of the node such a target is on is not
            # decidable in floating point; 1e-10 of the span is, in either frame)
            how = draw(st.sampled_from(["span_down", "span_up"]))
            v = float(e_ + (1 if how == "span_up" else -1) * (hi - lo) * draw(st.sampled_from([1e-7, 1e-9, 1e-10])))
        elif c == "near_end":
            v = draw(st.sampled_from([lo - 1, lo + 1, hi - 1, hi + 1]))
        elif c == "node":
            v = draw(st.sampled_from(xp))
        elif c == "end":
            v = draw(st.sampled_from([xp[0], xp[-1]]))
        elif c == "mid":
            i = draw(st.integers(0, len(xp) - 2))
            if kind == "time":
                v = (xp[i] + xp[i + 1]) // 2
            else:
                v = (xp[i] + xp[i + 1]) / 2
        elif c == "inside":
            if kind == "time":
                v = draw(st.integers(lo, hi))
            else:
                v = draw(fl(lo, hi))
        elif c == "below":
            v = lo - (draw(st.integers(1, 10 ** 5)) if kind == "time" else draw(fl(1e-6, 100.0)))
        else:
            v = hi + (draw(st.integers(1, 10 ** 5)) if kind == "time" else draw(fl(1e-6, 100.0)))
        out.append(v)
    scalar = n == 1 and draw(st.booleans())
    return out, scalar


PASSIVE = ["y", "z", "level"]


@st.composite
def axis_case(draw):
    kind = draw(st.sampled_from(["numeric", "numeric", "time"]))
    cname = "time" if kind == "time" else "x"
    xp = draw(grid_nodes(kind))
    nx = len(xp)
    nvar = draw(st.integers(1, 3))
    variables = []
    passive_sizes = {p: draw(st.integers(1, 3)) for p in PASSIVE}
    seed = draw(st.integers(0, 2 ** 32 - 1))
    for v in range(nvar):
        has = v == 0 or draw(st.integers(0, 3)) > 0
        rank = draw(st.integers(1, 4))
        others = draw(st.permutations(PASSIVE))[: rank - 1 if has else max(1, rank - 1)]
        dims = list(others)
        if has:
            dims.insert(draw(st.integers(0, len(dims))), cname)
        vkind = draw(st.sampled_from(["random", "linear", "random", "int_like"]))
        nan = draw(st.sampled_from(["none", "none", "node", "scatter"])) if has else "none"
        # infinite values are data (the library's own default depth is +inf), not missing values
        inf = draw(st.sampled_from(["none", "none", "none", "node", "scatter"])) if has and nan == "none" and vkind != "linear" else "none"
        variables.append({"name": f"var{v}", "dims": dims, "kind": vkind, "nan": nan, "inf": inf})
    tg, scalar = draw(targets_for(xp, kind))
    return {"coord": cname, "ckind": kind, "xp": xp, "sizes": passive_sizes, "vars": variables,
            "seed": seed, "targets": tg, "scalar": scalar, "nearest": draw(st.integers(0, 3)) == 0,
            # datetime axes and targets come in any datetime64 unit (files store s / ms / us; pandas 3 keeps the unit)
            "grid_unit": draw(st.sampled_from(["ns", "ns", "s", "ms", "us"])),
            "target_unit": draw(st.sampled_from(["ns", "ns", "s", "ms", "us"]))}


def _coord_values(kind, xs, unit="ns"):
    if kind == "time":
        return np.array(xs, dtype="int64").astype("datetime64[s]").astype(f"datetime64[{unit or 'ns'}]")
    return np.array(xs, dtype=float)


def build_dataset(c):
    import xarray
    rng = np.random.default_rng(c["seed"])
    xp = c["xp"]
    coords = {c["coord"]: _coord_values(c["ckind"], xp, c.get("grid_unit"))}
    for p, s in c["sizes"].items():
        coords[p] = np.arange(s, dtype=float) * 1.5
    data = {}
    raw = {}
    for v in c["vars"]:
        shape = tuple(len(xp) if d == c["coord"] else c["sizes"][d] for d in v["dims"])
        if v["kind"] == "linear" and c["coord"] in v["dims"]:
            ax = v["dims"].index(c["coord"])
            xnum = np.array(xp, dtype=float) - float(xp[0])
            sl = [None] * len(shape)
            sl[ax] = slice(None)
            a = rng.uniform(-2, 2, size=tuple(1 if i == ax else s for i, s in enumerate(shape)))
            b = rng.uniform(-2, 2, size=a.shape)
            arr = a + b * xnum[tuple(sl)]
        elif v["kind"] == "int_like":
            arr = rng.integers(-3, 4, size=shape).astype(float)
        else:
            arr = rng.uniform(-10, 10, size=shape)
        if v["nan"] != "none" and c["coord"] in v["dims"]:
            ax = v["dims"].index(c["coord"])
            if v["nan"] == "node":
                k = rng.integers(1, max(2, len(xp) // 2 + 1))
                nodes = rng.choice(len(xp), size=min(k, len(xp)), replace=False)
                idx = [slice(None)] * len(shape)
                idx[ax] = nodes
                arr[tuple(idx)] = np.nan
            else:
                arr[rng.uniform(size=shape) < 0.2] = np.nan
        if v.get("inf", "none") != "none" and c["coord"] in v["dims"]:
            ax = v["dims"].index(c["coord"])
            if v["inf"] == "node":
                nodes = rng.choice(len(xp), size=min(max(1, len(xp) // 3), len(xp)), replace=False)
                idx = [slice(None)] * len(shape)
                idx[ax] = nodes
                arr[tuple(idx)] = np.inf
            else:
                m = rng.uniform(size=shape)
                arr[m < 0.12] = np.inf
                arr[m > 0.94] = -np.inf
        used = {d: coords[d] for d in v["dims"]}
        data[v["name"]] = xarray.DataArray(arr.copy(), dims=v["dims"], coords=used)
        raw[v["name"]] = arr
    return xarray.Dataset(data), raw


def compare_interp(name, got, node, elem, ties, alts, axis, raw, classes, strict_nodewise=False):
    """got must equal the node-wise or element-wise reference; for targets whose weight is within rounding of
    one half (see oracle.interp) any of the admissible alternatives is accepted."""
    got = np.asarray(got, dtype=float)
    require(got.shape == node.shape, "output_shape", f"{name}: {got.shape} vs {node.shape}")
    finite = np.abs(raw[np.isfinite(raw)])
    scale = float(finite.max()) if finite.size else 1.0
    tol = 1e-11 * max(scale, 1e-300)

    def same(a, b):
        with np.errstate(all="ignore"):
            return (np.abs(a - b) <= tol) | (np.isnan(a) & np.isnan(b)) | (np.isinf(a) & (a == b))

    def per_target(ok):
        return np.moveaxis(ok, axis, 0).reshape(ok.shape[axis], -1).all(axis=1)
    g = per_target(same(got, node))
    e = per_target(same(got, elem))
    a = np.zeros_like(g)
    for alt in alts:
        a |= per_target(same(got, alt))
    a &= ties
    ok = (g | a) if strict_nodewise else (g | e | a)
    if not ok.all():
        j = int(np.argmin(ok))
        gj = np.moveaxis(got, axis, 0)[j]
        nj = np.moveaxis(node, axis, 0)[j]
        require(False, "piecewise_linear_value", f"{name}: target #{j} got={gj.ravel()[:4]!r} reference={nj.ravel()[:4]!r}")
    if (~g & e).any():
        classes.append("elementwise_reading_used")
    if (~g & ~e & a).any():
        classes.append("rounding_level_half_weight")


def run_axis(c):
    ds, raw = build_dataset(c)
    f = _ds_axis()
    kind = c["ckind"]
    cname = c["coord"]
    tg = c["targets"]
    tv = _coord_values(kind, tg, c.get("target_unit"))
    arg = tv[0] if c["scalar"] else tv
    before = {k: v.copy() for k, v in raw.items()}
    out = f(arg, ds, coordinate_name=cname, nearest_neighbour=c["nearest"])
    classes = ["axis_" + kind, "descending" if c["xp"][0] > c["xp"][-1] else "ascending",
               "nearest" if c["nearest"] else "linear"]
    if kind == "time":
        classes.append(f"grid_{c.get('grid_unit', 'ns')}_targets_{c.get('target_unit', 'ns')}")
    xp = np.array(c["xp"], dtype=float if kind != "time" else "int64")
    tt = [float(t) if kind != "time" else int(t) for t in tg]
    nontriv = False
    for v in c["vars"]:
        name = v["name"]
        require(name in out, "variable_present", name)
        got = out[name]
        if cname not in v["dims"]:
            g = np.asarray(got.values)
            require(g.shape == raw[name].shape and g.tobytes() == raw[name].tobytes()
                    and list(got.dims) == v["dims"], "variable_without_coordinate_passes_through", name)
            classes.append("passthrough_variable")
            continue
        ax = v["dims"].index(cname)
        require(list(got.dims) == v["dims"], "dims_preserved", f"{got.dims} vs {v['dims']}")
        gc = np.asarray(got.coords[cname].values)
        require(gc.shape == (len(tg),) and (gc == tv).all(), "output_coordinate_is_targets", f"{gc} vs {tv}")
        node, elem, ties, alt = OI.interp_axis(xp, raw[name], ax, tt, nearest=c["nearest"])
        whole_node_only = v["nan"] in ("none", "node")
        compare_interp(name, got.values, node, elem, ties, alt, ax, raw[name], classes,
                       strict_nodewise=whole_node_only)
        # explicit clauses: outside -> NaN, node -> identical, between neighbours
        gv = np.moveaxis(np.asarray(got.values, dtype=float), ax, 0)
        dv = np.moveaxis(raw[name], ax, 0)
        for j, x in enumerate(tt):
            br = OI.bracket(xp, x)
            if br is None:
                require(np.isnan(gv[j]).all(), "outside_grid_is_missing", f"{name} target={tg[j]} got={gv[j].ravel()[:3]}")
                classes.append("target_outside")
                continue
            i0, i1, t = br
            if i0 == i1:
                if not np.isnan(dv[i0]).any():
                    require((gv[j] == dv[i0]).all(), "node_target_returns_node_data",
                            f"{name} node {i0}: got={gv[j].ravel()[:3]!r} data={dv[i0].ravel()[:3]!r}")
                classes.append("target_on_node")
            else:
                lo = np.minimum(dv[i0], dv[i1])
                hi = np.maximum(dv[i0], dv[i1])
                fin = np.isfinite(gv[j]) & np.isfinite(lo) & np.isfinite(hi)
                sl = 1e-12 * (np.abs(lo) + np.abs(hi)) + 1e-300
                require(((gv[j] >= lo - sl) & (gv[j] <= hi + sl))[fin].all(), "between_neighbours", f"{name} target={tg[j]}")
                if (np.isfinite(dv[i0]) & np.isfinite(dv[i1]) & (dv[i0] != dv[i1])).any():
                    nontriv = True
                if np.isnan(dv[i0]).any() or np.isnan(dv[i1]).any():
                    classes.append("nan_neighbour")
        if ax != len(v["dims"]) - 1:
            classes.append("axis_not_last")
        if v["kind"] == "linear":
            classes.append("linear_data")
        if v.get("inf", "none") != "none":
            classes.append("infinite_values_" + v["inf"])
    # operands untouched
    for k, v in before.items():
        require(np.asarray(ds[k].values).tobytes() == v.tobytes(), "input_dataset_unchanged", k)
    if c["scalar"]:
        classes.append("scalar_target")
    return {"nontrivial": nontriv, "classes": sorted(set(classes))}


# ----------------------------------------------------------------------------- grid (2 coordinates)
@st.composite
def grid_case(draw):
    xa = draw(grid_nodes("numeric", max_n=12))
    xb = draw(grid_nodes("numeric", max_n=12))
    n = draw(st.integers(1, 5))
    ta, _ = draw(targets_for(xa, "numeric", max_targets=5))
    tb, _ = draw(targets_for(xb, "numeric", max_targets=5))
    order = draw(st.permutations(["x", "y", "z"]))
    return {"xa": xa, "xb": xb, "ta": ta, "tb": tb, "dims": list(order), "nz": draw(st.integers(1, 3)),
            "seed": draw(st.integers(0, 2 ** 32 - 1)), "nearest": draw(st.integers(0, 3)) == 0,
            "extra_var": draw(st.booleans())}


def run_grid(c):
    import xarray
    from ocean_science_utilities.interpolate.dataset import interpolate_dataset_grid
    rng = np.random.default_rng(c["seed"])
    sizes = {"x": len(c["xa"]), "y": len(c["xb"]), "z": c["nz"]}
    coords = {"x": np.array(c["xa"]), "y": np.array(c["xb"]), "z": np.arange(c["nz"], dtype=float)}
    shape = tuple(sizes[d] for d in c["dims"])
    arr = rng.uniform(-5, 5, size=shape)
    data = {"field": xarray.DataArray(arr.copy(), dims=c["dims"], coords={d: coords[d] for d in c["dims"]})}
    if c["extra_var"]:
        data["only_z"] = xarray.DataArray(rng.uniform(size=c["nz"]), dims=["z"], coords={"z": coords["z"]})
    ds = xarray.Dataset(data)
    out = interpolate_dataset_grid({"x": np.array(c["ta"]), "y": np.array(c["tb"])}, ds,
                                   nearest_neighbour=c["nearest"])
    ax = c["dims"].index("x")
    ay = c["dims"].index("y")
    n1, _, t1, _ = OI.interp_axis(np.array(c["xa"]), arr, ax, c["ta"], nearest=c["nearest"])
    n2, _, t2, _ = OI.interp_axis(np.array(c["xb"]), n1, ay, c["tb"], nearest=c["nearest"])
    require("field" in out, "variable_present", "field")
    got = np.asarray(out["field"].values, dtype=float)
    require(got.shape == n2.shape, "output_shape", f"{got.shape} vs {n2.shape}")
    with np.errstate(all="ignore"):
        ok = (np.abs(got - n2) <= 1e-11) | (np.isnan(got) & np.isnan(n2))
    if t1.any() or t2.any():
        pass  # a weight within rounding of one half in either direction: skip the exact comparison
    else:
        require(ok.all(), "grid_interpolation_is_sequential_piecewise_linear",
                lambda: f"got={got[~ok][:3]} ref={n2[~ok][:3]}")
    if c["extra_var"]:
        require("only_z" in out, "variable_without_coordinate_passes_through", "only_z missing from output")
        require(np.asarray(out["only_z"].values).tobytes() == np.asarray(ds["only_z"].values).tobytes(),
                "variable_without_coordinate_passes_through", "only_z")
    inside = [OI.bracket(np.array(c["xa"]), x) for x in c["ta"]]
    nontriv = any(b is not None and b[0] != b[1] for b in inside)
    return {"nontrivial": nontriv, "classes": ["grid2", "nearest" if c["nearest"] else "linear"]}


# ----------------------------------------------------------------------------- spectra
@st.composite
def spectrum_case(draw):
    mode = draw(st.sampled_from(["time_1d", "time_2d", "freq_1d", "freq_1d", "freq_2d"]))
    kinds = ["random", "smooth", "sparse", "random"]
    if mode.endswith("1d"):
        s = draw(GS.spec1d_case(layouts=["t"] if mode == "time_1d" else ["none", "t", "tl"], kinds=kinds,
                                max_nf=12, allow_zero_f=False, max_len=4, min_len=2))
    else:
        s = draw(GS.spec2d_case(layouts=["t"] if mode == "time_2d" else ["none", "t"], kinds=kinds, max_nf=10,
                                max_nd=12, uniform_only=True, allow_zero_f=False, max_len=4, min_len=2))
    s["depth"] = [float(10.0 + i) for i in range(len(s["depth"]))]
    if draw(st.booleans()):
        # deep water (+inf, the library's default depth) at some or all points
        which = draw(st.lists(st.booleans(), min_size=len(s["depth"]), max_size=len(s["depth"])))
        s["depth"] = [float("inf") if w else d for w, d in zip(which, s["depth"])]
    if mode.startswith("time"):
        xp = s["time"]
        tg, _ = draw(targets_for(xp, "time", max_targets=5))
    else:
        xp = s["f"]
        tg, _ = draw(targets_for(xp, "numeric", max_targets=6))
    return {"mode": mode, "spec": s, "targets": tg,
            "method": draw(st.sampled_from(["linear", "linear", "nearest"])) if mode == "freq_1d" else "linear",
            "extrap": draw(st.sampled_from([0.0, 0.0, -1.0, 7.5]))}


def run_spectrum(c):
    sc = c["spec"]
    mode = c["mode"]
    a = GS.case_arrays(sc)
    spec = GS.build(sc)
    tg = c["targets"]
    ex = c["extrap"]
    shape = tuple(a["shape"])
    nf = len(a["f"])
    two_d = sc["kind"] == "2d"
    full = shape + (nf,) + ((len(a["dir"]),) if two_d else ())
    E = a["e"].reshape(full)
    snapshot = {k: np.asarray(spec.dataset[k].values).tobytes() for k in spec.dataset.variables}
    if mode.startswith("time"):
        xp = np.array(sc["time"], dtype="int64")
        tv = _coord_values("time", tg, ("ns", "s", "ms", "us")[len(tg) % 4])
        out = spec.interpolate({"time": tv}, extrapolation_value=ex)
        ax = 0
        tt = [int(t) for t in tg]
        nearest = False
    else:
        xp = a["f"]
        tv = np.array(tg, dtype=float)
        ax = len(shape)
        tt = [float(t) for t in tg]
        nearest = c["method"] == "nearest"
        if two_d:
            out = spec.interpolate_frequency(tv, extrapolation_value=ex)
        else:
            out = spec.interpolate_frequency(tv, extrapolation_value=ex, method=c["method"])
    require(type(out) is type(spec), "returns_same_kind_of_spectrum", f"{type(out)}")
    node, _, ties, alt = OI.interp_axis(xp, E, ax, tt, nearest=nearest)
    ref = np.where(np.isnan(node), ex, node)
    refalts = [np.where(np.isnan(x), ex, x) for x in alt]
    got = np.asarray(out.variance_density.values, dtype=float)
    require(got.shape == ref.shape, "output_shape", f"{got.shape} vs {ref.shape}")
    scale = max(float(np.max(np.abs(E))), 1e-300)
    ok = np.abs(got - ref) <= 1e-12 * scale
    okalt = np.zeros(got.shape, dtype=bool)
    for x in refalts:
        okalt |= np.abs(got - x) <= 1e-12 * scale
    tie_b = np.moveaxis(np.broadcast_to(np.moveaxis(np.zeros(ref.shape, bool), ax, -1) | ties, np.moveaxis(ref, ax, -1).shape), -1, ax)
    require((ok | (okalt & tie_b)).all(), "spectrum_variance_density_interpolated",
            lambda: f"mode={mode} method={c['method']} got={got[~ok][:3]} ref={ref[~ok][:3]} extrap={ex}")
    outside = np.array([OI.bracket(xp, x) is None for x in tt])
    go = np.moveaxis(got, ax, 0)
    require((go[outside] == ex).all(), "outside_targets_get_extrapolation_value", f"extrap={ex}")
    nontriv = False
    if not two_d:
        for m in ("a1", "b1", "a2", "b2"):
            M = a[m].reshape(full)
            Mz = np.nan_to_num(M, nan=0.0)
            if np.isnan(M).any():
                continue
            num, _, _, numalts = OI.interp_axis(xp, Mz * E, ax, tt, nearest=nearest)
            with np.errstate(all="ignore"):
                r = num / node
                ralts = [na / aa for na, aa in zip(numalts, alt)]
            r = np.where(np.isnan(r), ex, r)
            ralts = [np.where(np.isnan(x), ex, x) for x in ralts]
            g = np.asarray(getattr(out, m).values, dtype=float)
            well = np.nan_to_num(node, nan=0.0) > 1e-9 * scale
            okalt_m = np.zeros(g.shape, dtype=bool)
            for x in ralts:
                okalt_m |= np.abs(g - x) <= 1e-9
            okm = (np.abs(g - r) <= 1e-9) | (okalt_m & tie_b) | ~well
            okm &= ((g == ex) | ~np.moveaxis(np.broadcast_to(outside, np.moveaxis(g, ax, -1).shape), -1, ax))
            require(okm.all(), "moments_interpolated_energy_weighted",
                    lambda: f"{m}: got={g[~okm][:3]} ref={r[~okm][:3]} mode={mode} method={c['method']}")
            # differs from interpolating the normalised moment when e varies between neighbours
            plain, _, _, _ = OI.interp_axis(xp, M, ax, tt, nearest=nearest)
            with np.errstate(all="ignore"):
                if (np.abs(plain - r) > 1e-6)[well & ~np.isnan(plain)].any():
                    nontriv = True
    for j, x in enumerate(tt):
        br = OI.bracket(xp, x)
        if br is not None and br[0] != br[1]:
            v0 = np.moveaxis(E, ax, 0)[br[0]]
            v1 = np.moveaxis(E, ax, 0)[br[1]]
            if (v0 != v1).any() and two_d:
                nontriv = True
            if (v0 != v1).any() and not two_d and mode.startswith("time"):
                nontriv = nontriv or True
    # operand untouched
    for k, b in snapshot.items():
        require(np.asarray(spec.dataset[k].values).tobytes() == b, "operand_unchanged", k)
    if mode.startswith("time"):
        lat = np.asarray(out.dataset["latitude"].values, dtype=float)
        nl, _, _, _ = OI.interp_axis(xp, np.array(sc["lat"], dtype=float), 0, tt)
        with np.errstate(all="ignore"):
            require(((np.abs(lat - nl) <= 1e-10) | (np.isnan(lat) & np.isnan(nl))).all(),
                    "latitude_interpolated_linearly", f"{lat} vs {nl}")
        dep = np.asarray(out.dataset["depth"].values, dtype=float)
        nd_, _, _, _ = OI.interp_axis(xp, np.array(sc["depth"], dtype=float), 0, tt)
        with np.errstate(all="ignore"):
            okd = (np.abs(dep - nd_) <= 1e-10 * np.abs(nd_)) | (np.isnan(dep) & np.isnan(nd_)) | (np.isinf(nd_) & (dep == nd_))
        require(okd.all(), "depth_interpolated_linearly_infinite_stays_infinite", f"{dep} vs {nd_}")
    return {"nontrivial": nontriv, "classes": ["spec_" + mode, "method_" + c["method"],
                                               "extrap_nonzero" if ex else "extrap_zero"] +
            (["some_infinite_depths"] if np.isinf(np.array(sc["depth"], dtype=float)).any() else [])}


SUBCHECKS = [
    SubCheck("dataset_axis", lambda tier: axis_case(), run_axis, {"quick": 700, "thorough": 5000}),
    SubCheck("dataset_grid", lambda tier: grid_case(), run_grid, {"quick": 200, "thorough": 1500}),
    SubCheck("spectrum", lambda tier: spectrum_case(), run_spectrum, {"quick": 250, "thorough": 2000}),
]
