"""C20 — time integration: exact stencils, linearity, start value, jitter fallback."""
from fractions import Fraction

import numpy as np
from hypothesis import strategies as st

from ..harness import SubCheck, require
from ..gen.common import fl

META = {
    "level": "exploration",
    "rule": ("stencils: all 36 (order 1..8, implicit points 1..order) pairs enumerated and compared "
             "with exact Lagrange-basis integrals in fractions.Fraction; integrate(): generated "
             "polynomial/random signals on grids made of exactly uniform stretches joined by dt "
             "jumps > 5 % (plus < 0.1 % jitter controls); non-trivial = grid has >= 1 jump and >= 1 "
             "stretch long enough for the high-order stencil, or a non-zero start value, or a "
             "polynomial of degree >= 2 (trapezoid and exact increments differ)"
             " A fifth of the grids start with a data gap (first interval 8-50 x the sampling step); the linearity sub-check also passes strided views and integer (millisecond tick) time axes."),
    "assumptions": [
        "stencil weights compared to exact rationals within 1e-9; polynomial exactness residual 1e-9",
        "per-step predicate only on grids of exactly uniform stretches and jumps > 5 % (sub-1 % jitter is "
        "by design integrated with the stencil and is then neither exact nor trapezoidal)",
        "increment tolerance 1e-10*C*dt with C = sum |polynomial coefficients| in the normalised variable",
        "linearity / start-value tolerance 1e-9 relative to the magnitude of the integrated signals",
        "the 36 stencil pairs are enumerated exhaustively in every run; integrate() inputs are sampled",
    ],
}


def _ti():
    from ocean_science_utilities.tools import time_integration as TI
    return TI


# ----------------------------------------------------------------------------- stencils
def exact_stencil(order, n):
    """Exact integrals over [m-1, m] (m = order-n) of the Lagrange basis on nodes 0..order-1."""
    m = order - n
    out = []
    for i in range(order):
        # polynomial coefficients (ascending) of L_i
        poly = [Fraction(1)]
        den = Fraction(1)
        for j in range(order):
            if j == i:
                continue
            # multiply poly by (x - j)
            new = [Fraction(0)] * (len(poly) + 1)
            for k, c in enumerate(poly):
                new[k + 1] += c
                new[k] += -j * c
            poly = new
            den *= (i - j)
        integ = Fraction(0)
        for k, c in enumerate(poly):
            integ += c * (Fraction(m) ** (k + 1) - Fraction(m - 1) ** (k + 1)) / (k + 1)
        out.append(integ / den)
    return out


def fixed_stencils():
    return [{"order": o, "n": n} for o in range(1, 9) for n in range(1, o + 1)]


def run_stencil(case):
    TI = _ti()
    order, n = case["order"], case["n"]
    w = np.asarray(TI.integration_stencil(order, n), dtype=float)
    require(w.shape == (order,), "stencil_length", f"{w.shape}")
    ref = exact_stencil(order, n)
    for i in range(order):
        require(abs(w[i] - float(ref[i])) <= 1e-9, "stencil_equals_lagrange_integral",
                f"order={order} n={n} i={i} got={w[i]!r} exact={float(ref[i])!r} ({ref[i]})")
    require(abs(sum(Fraction(float(x)) for x in w) - 1) <= Fraction(1, 10 ** 9), "stencil_sums_to_one",
            f"order={order} n={n} sum={float(sum(w))!r}")
    m = order - n
    for k in range(order):
        lhs = sum(Fraction(float(w[i])) * Fraction(i) ** k for i in range(order))
        rhs = (Fraction(m) ** (k + 1) - Fraction(m - 1) ** (k + 1)) / (k + 1)
        scale = max(1, abs(rhs))
        require(abs(lhs - rhs) <= Fraction(1, 10 ** 9) * scale, "stencil_exact_for_monomial",
                f"order={order} n={n} degree={k} lhs={float(lhs)!r} rhs={float(rhs)!r}")
    return {"nontrivial": True, "classes": [f"order{order}"]}


# ----------------------------------------------------------------------------- grids
@st.composite
def grid(draw, max_len, jitter_ok=False):
    """Time grid as a list of stretches [(count, dt)], exactly uniform inside a stretch."""
    t0 = draw(st.sampled_from([0.0, 0.0, 17.25, 1000.5]))
    base = draw(st.sampled_from([0.4, 0.5, 1.0, 0.1, 2.0, 0.037]))
    nstretch = draw(st.integers(1, 5))
    stretches = []
    total = 1
    for _ in range(nstretch):
        cnt = draw(st.one_of(st.integers(1, 3), st.integers(4, 14), st.integers(8, 30), st.integers(8, max(9, max_len // 2))))
        ratio = draw(st.sampled_from([1.06, 1.5, 2.0, 3.0, 0.9, 0.5, 10.0, 0.25, 1.2]))
        dt = base if not stretches else stretches[-1][1] * ratio
        if stretches and draw(st.integers(0, 2)) == 0:
            # isolated gap: one long step then back to the previous dt
            stretches.append([1, float(stretches[-1][1] * draw(st.sampled_from([2.0, 5.0, 1.07, 0.5])))])
            total += 1
            dt = stretches[-2][1]
        dt = float(min(max(dt, 1e-3), 1e3))
        stretches.append([cnt, dt])
        total += cnt
        if total >= max_len:
            break
    if draw(st.integers(0, 4)) == 0:
        # a data gap straight after the first sample: the record's first interval is much longer than its sampling step
        stretches.insert(0, [1, float(min(stretches[0][1] * draw(st.sampled_from([8.0, 20.0, 50.0])), 1e3))])
    jit = 0.0
    if jitter_ok and draw(st.integers(0, 3)) == 0:
        jit = draw(fl(1e-6, 9e-4))
    return {"t0": t0, "stretches": stretches, "jitter": jit,
            "jitter_seed": draw(st.integers(0, 2 ** 31)) if jit else 0}


def times_of(g, max_len):
    t = [g["t0"]]
    dts = []
    for cnt, dt in g["stretches"]:
        start = t[-1]
        for j in range(1, cnt + 1):
            if len(t) >= max_len:
                break
            t.append(start + j * dt)
            dts.append(dt)
    t = np.array(t, dtype=float)
    if g["jitter"]:
        rng = np.random.default_rng(g["jitter_seed"])
        d = np.diff(t) * (1 + g["jitter"] * rng.uniform(-1, 1, len(t) - 1))
        t = np.concatenate(([t[0]], t[0] + np.cumsum(d)))
    return t, np.array(dts, dtype=float)


ORDER_N = [(4, 1)] * 6 + [(2, 1), (3, 1), (4, 2), (5, 1), (6, 3), (3, 2), (6, 1), (8, 4), (1, 1), (4, 4)]


@st.composite
def poly_case(draw):
    order, n = draw(st.sampled_from(ORDER_N))
    g = draw(grid(160))
    deg = draw(st.integers(0, order - 1))
    coef = draw(st.lists(st.sampled_from([-1.0, -0.5, 0.25, 0.5, 1.0, 2.0, 0.0]), min_size=deg + 1,
                         max_size=deg + 1))
    if deg >= 2 and coef[deg] == 0.0:
        coef[deg] = 1.0
    start = draw(st.sampled_from([0.0, 0.0, 1.0, -3.5, 100.0]))
    return {"order": order, "n": n, "grid": g, "coef": coef, "start": start}


def _poly_local_integral(coef, u0, du):
    """int_{u0}^{u0+du} sum c_k u^k du via exact rational arithmetic on the float inputs."""
    u0 = Fraction(float(u0))
    u1 = u0 + Fraction(float(du))
    s = Fraction(0)
    for k, c in enumerate(coef):
        s += Fraction(float(c)) * (u1 ** (k + 1) - u0 ** (k + 1)) / (k + 1)
    return s


def run_poly(case):
    TI = _ti()
    order, n = case["order"], case["n"]
    t, dts = times_of(case["grid"], 160)
    nt = len(t)
    if nt < 2:
        return {"nontrivial": False, "classes": ["too_short"]}
    span = float(t[-1] - t[0])
    u = (t - t[0]) / span
    coef = case["coef"]
    C = sum(abs(c) for c in coef) or 1.0
    s = np.zeros(nt)
    for k, c in enumerate(coef):
        s = s + c * u ** k
    out = np.asarray(TI.integrate(t, s, order, n, float(case["start"])))
    require(out.shape == (nt,), "output_length", f"{out.shape} vs {nt}")
    require(out[0] == case["start"], "starts_at_start_value",
            f"start_value={case['start']} out[0]={out[0]!r}")
    inc = np.diff(out)
    dt = np.diff(t)
    # classification of steps (1-based step index ii = k+1 for inc[k])
    changed = np.zeros(nt, dtype=bool)   # changed[ii] : dt[ii] differs >1% from dt[ii-1] (ii>=2)
    for ii in range(2, nt):
        if abs(dt[ii - 1] - dt[ii - 2]) > 0.01 * min(dt[ii - 1], dt[ii - 2]):
            changed[ii] = True
    nE = nT = nfree = 0
    must_e_seen = must_t_seen = 0
    deg = len(coef) - 1
    for ii in range(1, nt):
        d = dt[ii - 1]
        T = 0.5 * (s[ii - 1] + s[ii]) * d
        # exact integral in t: span * int p du
        E = float(_poly_local_integral(coef, u[ii - 1], u[ii] - u[ii - 1]) * Fraction(span))
        tol = 1e-10 * C * d + 1e-13 * abs(out[ii])
        got = inc[ii - 1]
        isT = abs(got - T) <= tol
        isE = abs(got - E) <= tol
        require(isT or isE, "increment_is_exact_or_trapezoid",
                f"order={order} n={n} step={ii}/{nt - 1} dt={d} inc={got!r} trapezoid={T!r} exact={E!r}")
        distinguishable = abs(E - T) > 1e-7 * C * d
        # window of the high-order stencil around step ii: points ii-(order-n) .. ii+n-1
        lo, hi = ii - (order - n), ii + n - 1
        in_range = lo >= 0 and hi <= nt - 1
        win_changed = in_range and any(changed[j] for j in range(lo + 2, hi + 1))
        near_end = hi > nt - 1
        if distinguishable:
            if near_end or (in_range and win_changed) or lo < 0:
                must_t_seen += 1
                require(isT and not isE, "trapezoid_where_step_changes_or_near_ends",
                        f"order={order} n={n} step={ii}/{nt - 1} near_end={near_end} "
                        f"window_has_dt_change={bool(win_changed)} inc={got!r} trapezoid={T!r} exact={E!r}")
            # preceded by >= order+1 uniform steps and followed by >= n-1 uniform steps
            p0 = ii - (order + 1)
            if p0 >= 1 and hi <= nt - 1 and not any(changed[j] for j in range(p0 + 1, hi + 1)) \
                    and deg <= order - 1 and order >= 2:
                must_e_seen += 1
                require(isE and not isT, "exact_on_uniform_stretch",
                        f"order={order} n={n} step={ii}/{nt - 1} inc={got!r} trapezoid={T!r} exact={E!r}")
            if isE:
                nE += 1
            else:
                nT += 1
        else:
            nfree += 1
    classes = [f"order{order}_n{n}"]
    njump = int(changed.sum())
    if njump:
        classes.append("has_jump")
    if must_e_seen:
        classes.append("has_exact_steps")
    if must_t_seen and njump:
        classes.append("has_forced_trapezoid_after_jump")
    if case["start"] != 0:
        classes.append("nonzero_start")
    return {"nontrivial": (deg >= 2 and must_e_seen > 0) or (njump > 0 and must_e_seen > 0),
            "classes": classes}


def fixed_poly():
    def g(stretches, t0=0.0):
        return {"t0": t0, "stretches": stretches, "jitter": 0.0, "jitter_seed": 0}
    out = []
    cubic = [0.5, -1.0, 2.0, 1.0]
    out.append({"order": 4, "n": 1, "grid": g([[12, 0.4]]), "coef": cubic, "start": 0.0})
    out.append({"order": 4, "n": 1, "grid": g([[12, 0.4]]), "coef": cubic, "start": 5.0})
    out.append({"order": 4, "n": 1, "grid": g([[8, 0.4], [10, 0.8]]), "coef": cubic, "start": 0.0})
    out.append({"order": 4, "n": 2, "grid": g([[14, 0.4]]), "coef": cubic, "start": 0.0})
    out.append({"order": 6, "n": 3, "grid": g([[16, 0.5]]), "coef": [1.0, 0.5, -1.0, 2.0, 1.0, 1.0], "start": 0.0})
    out.append({"order": 4, "n": 1, "grid": g([[8, 0.4], [1, 2.0], [10, 0.4]]), "coef": cubic, "start": -1.0})
    out.append({"order": 4, "n": 1, "grid": g([[1, 0.4]]), "coef": [1.0, 1.0], "start": 2.0})
    return out


# ----------------------------------------------------------------------------- linearity
@st.composite
def lin_case(draw):
    order, n = draw(st.sampled_from(ORDER_N))
    big = draw(st.integers(0, 5)) == 0
    g = draw(grid(2000 if big else 120, jitter_ok=True))
    return {"order": order, "n": n, "grid": g, "max_len": 2000 if big else 120,
            "seed": draw(st.integers(0, 2 ** 32 - 1)),
            "a": draw(st.sampled_from([1.0, -1.0, 2.5, 0.0, 1e-3, -7.0])),
            "b": draw(st.sampled_from([1.0, 0.5, -3.0, 100.0])),
            # python ints are kept as ints in the case (and in JSON): callers do pass start_value=0 or 2
            "start": draw(st.sampled_from([0.0, 1.0, -2.5, 1e3, 2, 0, -3])),
            "start2": draw(st.sampled_from([0.0, 4.0, -1.0, 5])),
            # sampled signals as stored by loggers: integer counts
            "signal_dtype": draw(st.sampled_from(["float64", "float64", "float64", "int64", "int32"])),
            # how the arrays are stored: contiguous, every second element of a longer record (strided view),
            # or the time axis as integer ticks (whole milliseconds kept in an int64 array)
            "array_form": draw(st.sampled_from(["plain", "plain", "strided", "int_time", "strided_int_time"]))}


def run_lin(case):
    TI = _ti()
    order, n = case["order"], case["n"]
    t, _ = times_of(case["grid"], case["max_len"])
    nt = len(t)
    if nt < 2:
        return {"nontrivial": False, "classes": ["too_short"]}
    rng = np.random.default_rng(case["seed"])
    s1 = rng.standard_normal(nt)
    s2 = np.sin(np.arange(nt) * rng.uniform(0.01, 1.0)) + rng.uniform(-1, 1)
    a, b = case["a"], case["b"]
    sdt = case.get("signal_dtype", "float64")
    if sdt != "float64":
        # integer-valued samples in an integer array; integer weights keep the combination in that type
        s1 = np.round(10 * s1).astype(sdt)
        s2 = np.round(10 * s2).astype(sdt)
        a, b = (int(round(a)) if abs(a) >= 1 else 2), (int(round(b)) if abs(b) >= 1 else 3)
    form = case.get("array_form", "plain")
    if "int_time" in form:
        t = np.round(t * 1000.0).astype("int64")          # steps are >= 1e-3 by construction: strictly increasing
    if "strided" in form:
        def strided(x):
            big = np.zeros(2 * len(x) + 1, dtype=x.dtype)
            big[1::2] = x
            return big[1::2]
        t, s1, s2 = strided(t), strided(s1), strided(s2)
    i1 = np.asarray(TI.integrate(t, s1, order, n, 0.0))
    i2 = np.asarray(TI.integrate(t, s2, order, n, 0.0))
    i12 = np.asarray(TI.integrate(t, a * s1 + b * s2, order, n, 0.0))
    scale = abs(a) * np.abs(i1).max() + abs(b) * np.abs(i2).max() + \
        (abs(a) + abs(b)) * float(np.diff(t).max()) * 4 + 1e-300
    err = np.abs(i12 - (a * i1 + b * i2)).max()
    require(err <= 1e-9 * scale, "linear_in_signal", f"order={order} n={n} nt={nt} err={err!r} scale={scale!r}")
    st_ = float(case["start"])
    o1 = np.asarray(TI.integrate(t, s1, order, n, case["start"]))
    require(o1[0] == st_, "starts_at_start_value", f"start_value={st_} out[0]={o1[0]!r}")
    err = np.abs((o1 - i1) - st_).max()
    require(err <= 1e-9 * (abs(st_) + np.abs(i1).max() + 1e-300), "start_value_shifts_output",
            f"order={order} n={n} start={st_} err={err!r}")
    # first-difference structure does not depend on the start value
    st2 = float(case["start2"])
    o2 = np.asarray(TI.integrate(t, s1, order, n, case["start2"]))
    err = np.abs((o2 - o1) - (st2 - st_)).max()
    require(err <= 1e-9 * (abs(st_) + abs(st2) + np.abs(i1).max() + 1e-300), "start_value_shifts_output",
            f"two starts err={err!r}")
    classes = [f"order{order}_n{n}", "len>=1000" if nt >= 1000 else "len<1000"]
    if case["grid"]["jitter"]:
        classes.append("sub_1pct_jitter")
    if sdt != "float64":
        classes.append("integer_typed_signal")
    if isinstance(case["start"], int) or isinstance(case["start2"], int):
        classes.append("integer_start_value")
    classes.append("arrays_" + form)
    return {"nontrivial": st_ != 0 or (a != 0 and nt > order + 2), "classes": classes}


SUBCHECKS = [
    SubCheck("stencils", None, run_stencil, {"quick": 0, "thorough": 0}, fixed=fixed_stencils),
    SubCheck("poly_steps", lambda tier: poly_case(), run_poly, {"quick": 1500, "thorough": 5000},
             fixed=fixed_poly),
    SubCheck("linearity_start", lambda tier: lin_case(), run_lin, {"quick": 800, "thorough": 3000}),
]
SUBCHECKS[0].shard0_only = True


def warmup():
    TI = _ti()
    TI.integration_stencil(4, 1)
    TI.integrate(np.arange(10.0), np.ones(10), 4, 1, 0.0)
