"""C15 — spectrum objects: no aliasing or mutation of operands; restructuring round-trips."""
import copy
import os
import tempfile

import numpy as np
from hypothesis import strategies as st

from ..gen import spectra as GS
from ..gen.common import fl
from ..harness import SubCheck, require

META = {
    "level": "exploration",
    "technique": "generated operation sequences (model = byte snapshots of every pool member) and round-trip relations, driven by hypothesis",
    "rule": ("(a) operation sequences of length <= 6 over a pool of 2-3 spectra (1D or 2D, dims (time) / (time,latitude) "
             "/ ()): every public non-mutating operation (+ - neg multiply bandpass sel isel [] mean sum std flatten "
             "where drop_invalid copy deepcopy as_frequency_spectrum as_frequency_direction_spectrum interpolate "
             "interpolate_frequency(linear/nearest) cdf extrapolate_tail and the bulk-parameter getters) and the "
             "documented in-place ones (fillna, multiply(inplace=True), item assignment) and raw writes into deep "
             "copies; byte snapshots of every other pool member are compared after every step. (b) round trips: "
             "concatenate N=1..6 spectra and select each, flatten, dim=None concatenation, netCDF save/load. "
             "Non-trivial: (a) an in-place operation is applied after >= 1 derived object exists; (b) N >= 2 with "
             "distinct inputs. Distinct = sha1 of the case."),
    "assumptions": [
        "snapshot = name, dims, dtype and raw bytes of every data variable and coordinate of the wrapped dataset",
        "deep copies may share immutable index coordinates (pandas indexes) with their source; every data variable and non-index coordinate must not share memory",
        "interpolate_frequency(method='spline') is not treated as operand-preserving (it fills missing values of its operand by contract, as the property notes)",
        "operations that legitimately raise for a given operand (e.g. reducing a dimension the spectrum does not have) are skipped; an operation never counts as a violation for raising in this check",
        "netCDF round trip uses the engine xarray selects in this environment; infinite depth and NaN densities included",
    ],
}


def snapshot(spec):
    ds = spec.dataset
    out = {}
    for name in list(ds.variables):
        v = ds[name]
        a = np.asarray(v.values)
        out[str(name)] = (tuple(v.dims), str(a.dtype), a.shape, a.tobytes())
    return out


def same(a, b):
    return a.keys() == b.keys() and all(a[k] == b[k] for k in a)


def diff_snap(a, b):
    for k in sorted(set(a) | set(b)):
        if a.get(k) != b.get(k):
            return k
    return None


NONMUT = ["add", "sub", "neg", "multiply", "bandpass", "sel", "isel", "getitem", "mean", "sum", "std", "flatten",
          "where", "drop_invalid", "copy", "deepcopy", "to_1d", "to_2d", "interp_time", "interp_freq", "interp_freq_nearest",
          "interp_freq_own_grid", "interp_time_own_grid", "cdf", "extrapolate_tail", "bulk"]
INPLACE = ["fillna", "multiply_inplace", "setitem", "raw_write_deepcopy"]
VIEW_RETURNING = ["sel", "isel", "getitem", "flatten", "copy"]


@st.composite
def seq_case(draw):
    two_d = draw(st.booleans())
    lay = draw(st.sampled_from(["t", "t", "tl", "none"]))
    if two_d:
        base = draw(GS.spec2d_case(layouts=[lay], max_nf=8, max_nd=12, uniform_only=True, allow_zero_f=False,
                                   kinds=["random", "nan", "sparse"], max_len=3, min_len=2))
    else:
        base = draw(GS.spec1d_case(layouts=[lay], max_nf=8, allow_zero_f=False, kinds=["random", "nan", "sparse"],
                                   max_len=3, min_len=2, moments="any"))
    # missing values are what fillna-style side effects would disturb: make them common
    if draw(st.booleans()):
        e = list(base["e"])
        for _ in range(draw(st.integers(1, 3))):
            e[draw(st.integers(0, len(e) - 1))] = float("nan")
        base["e"] = e
        base["values"] = "with_nan"
    seeds = [draw(st.integers(0, 2 ** 31)) for _ in range(2)]
    ops = []
    nops = draw(st.integers(1, 6))
    for j in range(nops):
        if j == 0 and nops > 1:
            # half of the histories start with an operation that may legitimately return views of its operand
            # (selection, indexing, flattening, shallow copy): the later in-place operations then act on shared buffers
            kind = draw(st.sampled_from(VIEW_RETURNING if draw(st.booleans()) else NONMUT))
        else:
            kind = draw(st.sampled_from(NONMUT + INPLACE * 4 + ["multiply_inplace"] * 4))
        ops.append({"op": kind, "a": draw(st.integers(0, 9)), "b": draw(st.integers(0, 9)),
                    "x": draw(fl(0.1, 3.0)), "i": draw(st.integers(0, 3))})
    return {"base": base, "seeds": seeds, "ops": ops}


def variant(base, seed):
    rng = np.random.default_rng(seed)
    b = dict(base)
    e = np.array(base["e"], dtype=float)
    b["e"] = (np.where(np.isnan(e), np.nan, rng.uniform(0, 1, e.shape))).tolist()
    return b


def apply_op(o, pool):
    """Returns (result or None, index of pool member mutated in place or None)."""
    import xarray
    a = pool[o["a"] % len(pool)]
    b = pool[o["b"] % len(pool)]
    k = o["op"]
    ds = a.dataset
    nf = a.number_of_frequencies
    f = a.frequency.values
    lead = a.dims_space_time
    if k == "add":
        return (a + b if a.shape() == b.shape() else None), None
    if k == "sub":
        return (a - b if a.shape() == b.shape() else None), None
    if k == "neg":
        return -a, None
    if k == "multiply":
        return a.multiply(np.full(nf, o["x"]), ["frequency"]), None
    if k == "multiply_inplace":
        if o["i"] % 2:
            a.multiply(np.full(nf, o["x"]), ["frequency"], inplace=True)
        else:
            # the branch without dimension labels: array of exactly the spectrum's shape
            a.multiply(np.full(a.shape(), o["x"]), inplace=True)
        return None, o["a"] % len(pool)
    if k == "bandpass":
        return a.bandpass(float(f[0]), float(f[max(1, nf // 2)])), None
    if k == "sel":
        if "time" not in lead or len(a.time.values) == 0:
            return None, None                 # (an earlier drop / where may have left an empty object)
        return a.sel({"time": a.time.values[o["i"] % len(a.time.values)]}), None
    if k == "isel":
        if not lead or a.dataset.sizes[lead[0]] == 0:
            return None, None
        return a.isel(**{lead[0]: o["i"] % a.dataset.sizes[lead[0]]}), None
    if k == "getitem":
        if not lead or any(a.dataset.sizes[d] == 0 for d in lead):
            return None, None
        idx = tuple([o["i"] % a.dataset.sizes[d] for d in lead] + [slice(None)] * len(a.dims_spectral))
        return a[idx], None
    if k in ("mean", "sum", "std"):
        if "time" not in lead:
            return None, None
        return getattr(a, k)("time", skipna=bool(o["i"] % 2)), None
    if k == "flatten":
        return a.flatten(), None
    if k == "where":
        if not lead:
            return None, None
        cond = xarray.DataArray(np.arange(a.dataset.sizes[lead[0]]) % 2 == (o["i"] % 2), dims=[lead[0]],
                                coords={lead[0]: a.dataset[lead[0]].values} if lead[0] in a.dataset.coords else None)
        return a.where(cond), None
    if k == "drop_invalid":
        return a.drop_invalid(), None
    if k == "copy":
        return a.copy(deep=False), None
    if k == "deepcopy":
        return copy.deepcopy(a), None
    if k == "to_1d":
        return (a.as_frequency_spectrum() if hasattr(a, "as_frequency_spectrum") else None), None
    if k == "to_2d":
        if hasattr(a, "as_frequency_direction_spectrum") and not np.isnan(a.a1.values).any():
            return a.as_frequency_direction_spectrum(8, method="mem"), None
        return None, None
    if k == "interp_time":
        if "time" not in lead or len(a.time.values) < 2:
            return None, None
        t = a.time.values
        return a.interpolate({"time": np.array([t[0] + (t[1] - t[0]) // 2])}), None
    if k == "interp_freq_own_grid":
        # "interpolating" onto the grid the spectrum already has still returns a new object
        return a.interpolate_frequency(a.frequency.values.copy()), None
    if k == "interp_time_own_grid":
        if "time" not in lead:
            return None, None
        return a.interpolate({"time": a.time.values.copy()}), None
    if k in ("interp_freq", "interp_freq_nearest"):
        newf = (f[:-1] + f[1:]) / 2
        if hasattr(a, "as_frequency_direction_spectrum"):
            return a.interpolate_frequency(newf, method="linear" if k == "interp_freq" else "nearest"), None
        return a.interpolate_frequency(newf), None
    if k == "cdf":
        a.cdf()
        return None, None
    if k == "extrapolate_tail":
        if hasattr(a, "as_frequency_direction_spectrum"):
            return a.extrapolate_tail(float(f[-1] + 3 * (f[-1] - f[-2])), power=-4), None
        return None, None
    if k == "bulk":
        a.hm0(), a.tm01(), a.peak_frequency(), a.peak_direction(), a.mean_direction(), a.depth, a.wavenumber
        a.e, a.a1, a.frequency_step, a.number_of_spectra, len(a)
        return None, None
    if k == "fillna":
        a.fillna(o["x"])
        return None, o["a"] % len(pool)
    if k == "setitem":
        a["variance_density"] = a.dataset["variance_density"] * o["x"]
        return None, o["a"] % len(pool)
    if k == "raw_write_deepcopy":
        c = a.copy(deep=True)
        src = snapshot(a)
        for name in list(c.dataset.variables):
            if name in c.dataset.indexes:
                continue        # index coordinates are immutable (pandas indexes); sharing them is unobservable
            require(not np.shares_memory(np.asarray(c.dataset[name].values), np.asarray(a.dataset[name].values)),
                    "deep_copy_shares_no_data", f"variable {name}")
        for name in list(c.dataset.data_vars):
            v = c.dataset[name].values
            if v.dtype.kind == "f" and v.size:
                v[...] = -12345.0
        require(same(src, snapshot(a)), "writing_into_deep_copy_leaves_source_unchanged",
                f"variable {diff_snap(src, snapshot(a))} of the source changed")
        return c, None
    raise ValueError(k)


def run_seq(c):
    pool = [GS.build(c["base"])] + [GS.build(variant(c["base"], s)) for s in c["seeds"]]
    snaps = [snapshot(p) for p in pool]
    derived = 0
    nontriv = False
    classes = ["spec_" + c["base"]["kind"], "layout_" + c["base"]["layout"]]
    for step, o in enumerate(c["ops"]):
        try:
            res, mutated = apply_op(o, pool)
        except (ValueError, KeyError, IndexError, TypeError, NotImplementedError, AttributeError) as e:
            from ..harness import Violation
            if isinstance(e, Violation):
                raise
            # the operation is not applicable to this operand; whatever happened, operands must be intact
            res, mutated = None, None
            classes.append("op_raised_" + o["op"])
        for j, p in enumerate(pool):
            if j == mutated:
                snaps[j] = snapshot(p)
                continue
            now = snapshot(p)
            require(same(snaps[j], now), "operands_bit_for_bit_unchanged",
                    f"step {step} op={o['op']} changed variable '{diff_snap(snaps[j], now)}' of pool member {j} "
                    f"(operand indices a={o['a'] % len(pool)} b={o['b'] % len(pool)})")
        if res is not None:
            for j, p in enumerate(pool):
                require(res is not p and res.dataset is not p.dataset, "operation_returns_new_object",
                        f"step {step} op={o['op']} returned pool member {j} itself")
            pool.append(res)
            snaps.append(snapshot(res))
            derived += 1
        if mutated is not None and derived:
            nontriv = True
        classes.append("op_" + o["op"])
    return {"nontrivial": nontriv, "classes": sorted(set(classes))}


# ----------------------------------------------------------------------------- round trips
@st.composite
def roundtrip_case(draw):
    two_d = draw(st.booleans())
    n = draw(st.integers(1, 6))
    if two_d:
        base = draw(GS.spec2d_case(layouts=["none"], max_nf=8, max_nd=12, uniform_only=True, allow_zero_f=False,
                                   kinds=["random", "nan", "sparse"]))
    else:
        base = draw(GS.spec1d_case(layouts=["none"], max_nf=8, allow_zero_f=False, kinds=["random", "nan", "sparse"],
                                   moments="any"))
    members = []
    for i in range(n):
        m = variant(base, draw(st.integers(0, 2 ** 31)))
        m["time"] = [base["time"][0] + 3600 * i + draw(st.integers(0, 3000))]
        m["lat"] = [draw(fl(-80, 80))]
        m["lon"] = [draw(fl(-180, 180))]
        m["depth"] = [draw(st.sampled_from([float("inf"), 10.0, 250.5, float("nan")]))]
        members.append(m)
    tl = draw(GS.spec2d_case(layouts=["tl", "t"], max_nf=6, max_nd=8, uniform_only=True, allow_zero_f=False,
                             kinds=["random", "nan"], max_len=3)) if two_d else \
        draw(GS.spec1d_case(layouts=["tl", "t"], max_nf=6, allow_zero_f=False, kinds=["random", "nan"], max_len=3, moments="any"))
    return {"members": members, "flat": tl}


def _vars_equal(name, x, y, what):
    x = np.asarray(x)
    y = np.asarray(y)
    require(x.shape == y.shape, what, f"{name}: shape {x.shape} vs {y.shape}")
    if x.dtype.kind == "f":
        require(np.array_equal(x, y, equal_nan=True), what, f"{name}: {x.ravel()[:4]} vs {y.ravel()[:4]}")
    else:
        require((x == y).all(), what, f"{name}: {x} vs {y}")


def run_roundtrip(c):
    from ocean_science_utilities.wavespectra.operations import concatenate_spectra
    from ocean_science_utilities.wavespectra.spectrum import load_spectrum_from_netcdf
    specs = [GS.build(m) for m in c["members"]]
    n = len(specs)
    before = [snapshot(s) for s in specs]
    cat = concatenate_spectra(specs, dim="time")
    require(len(cat) == n and cat.number_of_spectra == n, "concatenation_length", f"{len(cat)} vs {n}")
    names = ["variance_density", "time", "latitude", "longitude", "depth"]
    if c["members"][0]["kind"] == "1d":
        names += ["a1", "b1", "a2", "b2"]
    nsp = len(specs[0].dims_spectral)
    for i in range(n):
        sel = cat[tuple([i] + [slice(None)] * nsp)]
        for name in names:
            _vars_equal(name, sel.dataset[name].values, specs[i].dataset[name].values,
                        "concatenate_then_select_returns_input")
        require(type(sel) is type(specs[i]), "selection_keeps_class", f"{type(sel)}")
        _vars_equal("hm0", sel.hm0().values, specs[i].hm0().values, "concatenate_then_select_returns_input")
    for s, b in zip(specs, before):
        require(same(b, snapshot(s)), "operands_bit_for_bit_unchanged", "concatenate_spectra modified an input")
    # dim=None: flatten then join
    cat2 = concatenate_spectra(specs, dim=None)
    require(len(cat2) == n, "concatenation_length", f"dim=None: {len(cat2)}")
    for i in range(n):
        for name in names:
            _vars_equal(name, cat2.dataset[name].values[i], specs[i].dataset[name].values, "flattened_concatenation_order")
    # flatten keeps the C-order pairing
    fs = GS.build(c["flat"])
    a = GS.case_arrays(c["flat"])
    fl_ = fs.flatten()
    shape = tuple(a["shape"])
    cnt = int(np.prod(shape))
    require(len(fl_) == cnt == fs.number_of_spectra and fl_.number_of_spectra == cnt, "flatten_keeps_spectrum_count",
            f"{len(fl_)} vs {cnt}")
    vd = np.asarray(fl_.variance_density.values)
    full = np.asarray(fs.variance_density.values)
    for j in range(cnt):
        idx = np.unravel_index(j, shape)
        _vars_equal("variance_density", vd[j], full[idx], "flatten_keeps_c_order_pairing")
        for name in ("depth", "longitude"):
            _vars_equal(name, np.asarray(fl_.dataset[name].values)[j], np.asarray(fs.dataset[name].values)[idx],
                        "flatten_keeps_c_order_pairing")
        t_full = fs.dataset["time"].values
        t_exp = t_full[idx[0]] if t_full.ndim == 1 else t_full[idx]
        require(np.asarray(fl_.dataset["time"].values)[j] == t_exp, "flatten_keeps_c_order_pairing", "time")
        lat_full = fs.dataset["latitude"].values
        lat_exp = lat_full[idx[-1]] if (c["flat"]["layout"] == "tl") else lat_full[idx]
        require(np.array_equal(np.asarray(fl_.dataset["latitude"].values)[j], lat_exp, equal_nan=True),
                "flatten_keeps_c_order_pairing", "latitude")
    # netCDF round trip
    d = tempfile.mkdtemp(prefix="vknc_", dir=os.environ.get("TMPDIR") or tempfile.gettempdir())
    try:
        for tag, s in (("cat", cat), ("single", specs[0]), ("grid", fs)):
            p = os.path.join(d, tag + ".nc")
            s.save_as_netcdf(p)
            back = load_spectrum_from_netcdf(p)
            try:
                require(type(back) is type(s), "netcdf_roundtrip_keeps_kind", f"{type(back)} vs {type(s)}")
                for name in list(s.dataset.variables):
                    require(name in back.dataset.variables, "netcdf_roundtrip_keeps_variables", str(name))
                    x, y = np.asarray(s.dataset[name].values), np.asarray(back.dataset[name].values)
                    if x.dtype.kind == "M":
                        require(x.shape == y.shape and (x.astype("datetime64[ns]") == y.astype("datetime64[ns]")).all(),
                                "netcdf_roundtrip_identical_coordinates", f"{name}: {x} vs {y}")
                    else:
                        _vars_equal(str(name), y, x, "netcdf_roundtrip_identical_values")
                    require(tuple(back.dataset[name].dims) == tuple(s.dataset[name].dims), "netcdf_roundtrip_keeps_dims", str(name))
            finally:
                back.dataset.close()
    finally:
        import shutil
        shutil.rmtree(d, ignore_errors=True)
    distinct = len({tuple(m["e"]) if not any(isinstance(x, float) and x != x for x in m["e"]) else i
                    for i, m in enumerate(c["members"])}) >= 2
    classes = ["spec_" + c["members"][0]["kind"], f"n{n}", "flat_" + c["flat"]["layout"]]
    if any(np.isinf(m["depth"][0]) for m in c["members"]):
        classes.append("inf_depth")
    return {"nontrivial": n >= 2 and distinct, "classes": classes}


SUBCHECKS = [
    SubCheck("operation_sequences", lambda tier: seq_case(), run_seq, {"quick": 450, "thorough": 2500}),
    SubCheck("round_trips", lambda tier: roundtrip_case(), run_roundtrip, {"quick": 150, "thorough": 1200}),
]
