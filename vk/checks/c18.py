"""C18 — file cache: contents, hits, size bound and LRU eviction over any request history."""
import itertools
import os
import threading

from hypothesis import strategies as st

from .. import cachelab as CL
from ..harness import SubCheck, require

NAMES6 = ["a", "b", "c", "d", "e", "f", "z"]      # "z" is an empty (0-byte) resource
LIMITS = [x * 1000 for x in [1000, 1000, 800, 1200, 1500, 700, 5000, 100]]

META = {
    "level": "exploration",
    "technique": "model-based generated operation histories (hypothesis) against an executable reference model; exhaustive enumeration of short histories in the thorough tier",
    "rule": ("generated operation histories (get of 1..3 URIs - up to 12 in the thorough tier - over a 6-resource "
             "alphabet with comment suffixes and validate/postprocess directives, mem:// and file:// schemes; remove; "
             "purge; reopen with other constructor arguments; user touch/age of a cache file; foreign files incl. "
             "near-miss names) x cache sizes forcing 0/1/many evictions x sequential/parallel download, run against "
             "an executable reference model with harness-owned logical timestamps; the same history is also run "
             "sequentially and in parallel and compared. Non-trivial = history with >= 1 eviction that happens after "
             ">= 1 hit; distinct = sha1 of the history."
             " The alphabet includes an empty (0-byte) resource."),
    "level_text": ("every generated history is replayed against the real FileCache on a fresh directory and against an "
                   "executable reference model; after every step returned paths/bytes, call log, directory listing, "
                   "entry count, size bound, LRU validity predicate and foreign files are compared. Thorough adds an "
                   "exhaustive enumeration of all histories of length <= 4 over a 3-URI alphabet."),
    "assumptions": [
        "recency is owned by the harness: after every operation all cache files are re-stamped with logical times far in the past, so max(atime,mtime) order between operations is exact and independent of clock granularity/relatime",
        "eviction is judged by a validity predicate (size bound, no evictee more recent than a kept file, minimality, current request protected), not by one expected set",
        "a request of up to 3 URIs may name the same key twice (both downloads run in one imap chunk); multi-chunk requests name distinct keys, because two concurrent downloads of one key are outside the stated history space",
        "thread interleavings inside ThreadPool.imap are not controlled beyond forcing inter-chunk completion orders with events (thorough tier)",
    ],
}


@st.composite
def item(draw, names=NAMES6, allow_file=True, directives=True):
    it = {"name": draw(st.sampled_from(names))}
    c = draw(st.sampled_from([None, None, None, "x", "y"]))
    if c:
        it["comment"] = c
    if directives:
        v = draw(st.sampled_from([None, None, None, None, "vok", "vbad"]))
        if v:
            it["validate"] = v
        if draw(st.integers(0, 7)) == 0:
            it["postprocess"] = True
    if allow_file and draw(st.integers(0, 9)) == 0:
        it["scheme"] = "file"
    return it


def _key(it):
    return (it.get("scheme", "mem"), it["name"], it.get("comment"))


@st.composite
def request(draw, max_items=3, names=NAMES6):
    n = draw(st.integers(1, max_items))
    items = []
    seen = set()
    for _ in range(n):
        it = draw(item(names))
        if _key(it) in seen and (max_items > 3 or draw(st.integers(0, 2)) > 0):
            # the same key twice in one request is allowed for small requests (one imap chunk, so the two
            # downloads are sequential); large multi-chunk requests keep distinct keys
            continue
        seen.add(_key(it))
        items.append(it)
    if len(items) == 1 and draw(st.booleans()):
        items[0]["as_str"] = True
    return items


@st.composite
def operation(draw, max_items=3, names=NAMES6):
    k = draw(st.sampled_from(["get"] * 20 + ["remove", "remove", "purge", "reopen", "reopen", "reopen", "touch", "touch", "age", "age",
                              "foreign", "foreign"]))
    if k == "get":
        return {"op": "get", "items": draw(request(max_items, names))}
    if k in ("remove", "touch", "age"):
        o = {"op": k, "item": draw(item(names, directives=False))}
        if k == "touch":
            o["mode"] = draw(st.sampled_from(["both", "atime", "mtime"]))
        return o
    if k == "reopen":
        return {"op": "reopen", "size": draw(st.sampled_from([None, 10 ** 5, 10 ** 6, 10 ** 9])),
                "parallel": draw(st.sampled_from([None, True, False]))}
    if k == "foreign":
        return {"op": "foreign", "name": draw(st.sampled_from(CL.FOREIGN_NAMES)),
                "data": draw(st.sampled_from(["", "hello", "x" * 2000]))}
    return {"op": "purge"}


@st.composite
def history(draw, tier="quick"):
    big = tier == "thorough" and draw(st.integers(0, 3)) == 0
    names = list(CL.SIZES) if big else NAMES6
    n = draw(st.integers(1, 60 if tier == "thorough" else 25))
    ops = [draw(operation(12 if big else 3, names)) for _ in range(n)]
    return {"limit": draw(st.sampled_from(LIMITS)), "parallel": draw(st.booleans()), "ops": ops,
            "chunk_order": draw(st.permutations([0, 1, 2])) if big else None}


def apply_gates(lab, items, order):
    """Force the completion order of imap chunks (chunksize=5) for one parallel request."""
    misses = [it["name"] for it in items if it.get("scheme", "mem") == "mem"]
    chunks = [misses[i:i + 5] for i in range(0, len(misses), 5)]
    if len(chunks) < 2 or len(set(misses)) != len(misses):
        lab.res.gates = None
        return False
    order = [c for c in order if c < len(chunks)]
    done = {c: threading.Event() for c in range(len(chunks))}
    gates = {}
    for pos, c in enumerate(order):
        prev = done[order[pos - 1]] if pos > 0 else None
        ch = chunks[c]
        for j, name in enumerate(ch):
            gates[name] = (prev if j == 0 else None, done[c] if j == len(ch) - 1 else None)
    lab.res.gates = gates
    return True


def norm(lab, key):
    return key.replace(lab.root, "<root>")


def run_ops(lab, ops, chunk_order=None, trace=None):
    classes = set()
    for o in ops:
        k = o["op"]
        if k == "get":
            if not o["items"]:
                continue
            gated = False
            if chunk_order is not None and lab.cache.config.parallel and len(o["items"]) > 5:
                # only when every item is a miss is the chunking of misses known in advance
                if all(lab.uri_of(it)[1] not in lab.model for it in o["items"]):
                    gated = apply_gates(lab, o["items"], list(chunk_order))
            info = lab.op_get(o["items"])
            lab.res.gates = None
            if gated:
                classes.add("forced_chunk_order")
            if trace is not None:
                info["paths"] = ["file-scheme" if it.get("scheme") == "file" else p
                                 for it, p in zip(o["items"], info["paths"])]
                trace.append(("get", info["paths"], [norm(lab, k) for k in info["evicted"]], lab.limit,
                              sorted(norm(lab, k) for k in lab.model), info["evicted_recs"]))
            if info["evicted"]:
                classes.add("evicts")
            if info["enlarged"]:
                classes.add("limit_enlarged")
            if info["hits"]:
                classes.add("has_hit")
            if any(it.get("comment") for it in o["items"]):
                classes.add("comment_suffix")
            if any(it.get("validate") == "vbad" for it in o["items"]):
                classes.add("revalidation_refetch")
            if len(o["items"]) > 5:
                classes.add("multi_chunk_request")
        elif k == "remove":
            lab.op_remove(o["item"])
        elif k == "purge":
            lab.op_purge()
            classes.add("purge")
        elif k == "reopen":
            lab.op_reopen(o.get("size"), o.get("parallel"))
            classes.add("reopen")
        elif k in ("touch", "age"):
            if lab.op_touch(o["item"], age=(k == "age"), mode=o.get("mode", "both")):
                classes.add("user_" + k + ("_" + o["mode"] if k == "touch" and "mode" in o else ""))
        elif k == "foreign":
            lab.op_foreign(o["name"], o["data"].encode())
            classes.add("foreign_file")
        if trace is not None and k != "get":
            trace.append((k, sorted(norm(lab, x) for x in lab.model), lab.limit))
    return classes


def run_history(c):
    lab = CL.Lab(c["limit"], c["parallel"])
    try:
        classes = run_ops(lab, c["ops"], c.get("chunk_order"))
        classes.add("parallel" if c["parallel"] else "sequential")
        classes.add(f"limit_{c['limit']}")
        if lab.res.gate_timeouts:
            classes.add("gate_timeout")
        if lab.saw_duplicates:
            classes.add("request_names_a_key_twice")
        return {"nontrivial": lab.evict_after_hit, "classes": sorted(classes)}
    finally:
        lab.close()


def run_differential(c):
    """Same history sequentially and in parallel: identical observable results."""
    traces = []
    for par in (False, True):
        lab = CL.Lab(c["limit"], par)
        try:
            tr = []
            ops = [dict(o, parallel=None) if o["op"] == "reopen" else o for o in c["ops"]]
            run_ops(lab, ops, None, trace=tr)
            traces.append(tr)
            nt = lab.evict_after_hit
        finally:
            lab.close()
    classes = ["differential"]
    for i, (a, b) in enumerate(zip(*traces)):
        if a == b:
            continue
        # files used in the same operation have no defined order: the two modes may evict different
        # members of such a tie (same recency multiset); the histories then legitimately diverge
        tie = a[0] == b[0] == "get" and a[1] == b[1] and a[3] == b[3]
        if tie:
            ea, eb = {k: r for r, k in a[5]}, {k: r for r, k in b[5]}
            boundary = max(list(ea.values()) + list(eb.values()))
            tie = all((ea.get(k, eb.get(k)) == boundary) for k in set(ea) ^ set(eb))
        require(tie, "sequential_and_parallel_modes_agree", f"step {i}: sequential={a} parallel={b}")
        classes.append("diverged_on_same_operation_tie")
        break
    return {"nontrivial": nt, "classes": classes}


def fixed_histories():
    g = lambda *names: {"op": "get", "items": [{"name": n} for n in names]}
    return [
        # F13 reproduction: hit then miss with eviction in the same request
        {"limit": 10 ** 6, "parallel": False, "ops": [g("a"), g("b"), g("a", "c")], "chunk_order": None},
        {"limit": 10 ** 6, "parallel": True, "ops": [g("a"), g("b"), g("a"), g("c"), g("a", "b", "d")], "chunk_order": None},
        {"limit": 10 ** 5, "parallel": False, "ops": [g("a", "b", "e"), {"op": "reopen", "size": 10 ** 5, "parallel": True},
                                                   g("c"), g("a")], "chunk_order": None},
    ]


# ----------------------------------------------------------------------------- exhaustive short histories
ALPHA3 = ["a", "b", "c"]


def _short_ops():
    ops = []
    for r in (1, 2):
        for combo in itertools.permutations(ALPHA3, r):
            ops.append({"op": "get", "items": [{"name": n} for n in combo]})
    ops.append({"op": "get", "items": [{"name": "a", "comment": "x"}]})
    ops.append({"op": "remove", "item": {"name": "a"}})
    ops.append({"op": "purge"})
    ops.append({"op": "reopen", "size": None, "parallel": None})
    ops.append({"op": "age", "item": {"name": "b"}})
    ops.append({"op": "foreign", "name": "cachefile_abc", "data": "zz"})
    return ops


def enumerate_short(shard, nshards, max_len, stop_at=None):
    ops = _short_ops()
    count = 0
    idx = 0
    for L in range(1, max_len + 1):
        for combo in itertools.product(range(len(ops)), repeat=L):
            idx += 1
            if idx % nshards != shard:
                continue
            yield {"limit": 800000, "parallel": False, "ops": [ops[i] for i in combo], "chunk_order": None}
            count += 1
            if stop_at and count >= stop_at:
                return


def run_exhaustive(c):
    """One case = one shard descriptor; enumerates its slice of all histories of length <= max_len."""
    n = 0
    nontriv = 0
    for h in enumerate_short(c["shard"], c["nshards"], c["max_len"]):
        lab = CL.Lab(h["limit"], h["parallel"])
        try:
            try:
                run_ops(lab, h["ops"])
            except Exception as e:  # attach the history to the failure
                if hasattr(e, "detail"):
                    e.detail = f"history={h['ops']} :: {e.detail}"
                raise
            n += 1
            nontriv += bool(lab.evict_after_hit)
        finally:
            lab.close()
    return {"nontrivial": True, "classes": ["exhaustive_slice"],
            "excluded": {}, "count": n, "nontrivial_histories": nontriv}


def fixed_exhaustive():
    shard = int(os.environ.get("VK_SHARD", "0"))
    nsh = int(os.environ.get("VK_NSHARDS", "1"))
    # 14 operations: length<=3 is 2954 histories (quick slice), length<=4 is 41370 (thorough)
    return [{"shard": shard, "nshards": nsh, "max_len": 4}]


SUBCHECKS = [
    SubCheck("history_vs_model", lambda tier: history(tier), run_history, {"quick": 400, "thorough": 1500},
             fixed=fixed_histories),
    SubCheck("sequential_vs_parallel", lambda tier: history("quick"), run_differential, {"quick": 100, "thorough": 400}),
    SubCheck("exhaustive_short_histories", None, run_exhaustive, {"quick": 0, "thorough": 0}, fixed=fixed_exhaustive,
             thorough_only=True),
]
