"""C06 — estimators reproduce the input moments; solvers agree; output rotates with the input;
the MEM2 Jacobian is the derivative of the constraint function."""
import cmath
import math

import numpy as np
from hypothesis import strategies as st

from ..gen import moments as GM
from ..gen.common import fl
from ..harness import SubCheck, require

NS = [24, 36, 72, 144]

# Worst MEM four-moment error observed on the unchanged tree (notes/calibrate_c06.py, 4x400 mixtures
# per N), by N and by the smallest lobe spread in bins (lower bucket edge). Bound = 3 x observed,
# cells whose bound would exceed 0.15 are not asserted (MEM sharpens peaks, so narrow lobes on fine
# grids are under-resolved; the differential clause against the independent formula still applies).
MEM_OBSERVED = {
    (24, 2.0): 0.0142, (24, 3.0): 2.8e-6, (24, 5.0): 2.8e-6,
    (36, 3.0): 0.00185, (36, 5.0): 1e-9,
    (72, 5.0): 3.6e-4,
    (144, 5.0): 0.0162,
}
BUCKETS = [1.5, 2.0, 3.0, 5.0]

META = {
    "level": "exploration",
    "rule": ("generated moments of von-Mises mixtures (1-2 lobes + isotropic background) whose every lobe has a "
             "circular spread >= 1.5 direction bins, mean directions in all quadrants, N in {24,36,72,144}; "
             "rotations by every k in 0..N-1 and mirrors; the 5 hard cases with rotations/mirrors; Jacobian points "
             "lambda in [-6,6]^4 and initial_value() of generated moments. Non-trivial = R > 0.05 and (for "
             "equivariance) k != 0 or mirror; distinct = sha1 of the case."
             " Fidelity cases use the grid labelled [0,360), listed from another bin on (wrapping inside the array), in [-180,180) or unwrapped from 270; batch neighbours are the same sea turned or the repository's hard cases, every resolved cell is asserted for MEM, Newton and scipy."
             " A third of the resolved lobes are 1.5-2.6 bins wide (the narrow end of the resolved domain)."),
    "assumptions": [
        "moments recomputed from the returned distribution with the midpoint rule on the same grid",
        "MEM2 newton/scipy: four-moment norm <= 0.0101 (solver atol 0.01 + recomputation slack); newton vs scipy moments <= 0.02",
        "MEM: (a) equals an independent evaluation of the Lygre-Krogstad closed form on the same grid (1e-9 relative to max), (b) moment error <= 3 x the worst error calibrated on the unchanged tree for that (N, spread/bin) cell, asserted only where that bound <= 0.15",
        "equivariance: MEM and MEM2-newton within 1e-6*max(D); MEM2-scipy (Levenberg-Marquardt with its own stopping rule) within 2e-2*max(D)",
        "Jacobian vs central finite difference of moment_constraints, h=1e-5, tolerance 1e-5*(||J||+1); symmetry 1e-12",
    ],
}


def _est():
    from ocean_science_utilities.wavespectra.estimators.estimate import estimate_directional_distribution
    return estimate_directional_distribution


GRID_FORMS = ["0_360", "0_360", "rolled", "pm180", "unwrapped"]


def grid(N, form="0_360", r=0):
    """The uniform direction grid of N bins in one of its labellings: [0,360) ascending; the same grid listed from bin r
    on (ascending but wrapping through 360 -> 0 inside the array); labelled in [-180,180); or unwrapped from 270 on."""
    step = 360.0 / N
    d = np.arange(N) * step
    if form == "rolled":
        d = ((np.arange(N) + (r % N)) * step) % 360.0
    elif form == "pm180":
        d = d - 180.0
    elif form == "unwrapped":
        d = d + 270.0
    return d, np.radians(d), step


def moments_of(D, th, step_deg):
    w = math.radians(step_deg)
    return np.array([(D * np.cos(th)).sum() * w * 180 / math.pi, (D * np.sin(th)).sum() * w * 180 / math.pi,
                     (D * np.cos(2 * th)).sum() * w * 180 / math.pi, (D * np.sin(2 * th)).sum() * w * 180 / math.pi])


def mem_reference(m, th):
    """Lygre & Krogstad (1986) eq. 13 evaluated point by point with python complex arithmetic,
    normalised in the discrete sense; density per radian."""
    c1 = complex(m[0], m[1])
    c2 = complex(m[2], m[3])
    phi1 = (c1 - c2 * c1.conjugate()) / (1 - abs(c1) ** 2)
    phi2 = c2 - c1 * phi1
    num = (1 - phi1 * c1.conjugate() - phi2 * c2.conjugate()).real
    out = []
    for t in th:
        den = abs(1 - phi1 * cmath.exp(-1j * t) - phi2 * cmath.exp(-2j * t)) ** 2
        out.append(num / den / (2 * math.pi))
    out = np.array(out)
    return out / (out.sum() * 2 * math.pi / len(th))


@st.composite
def resolved_moments(draw, N):
    step = 360.0 / N
    nl = draw(st.integers(1, 2))
    lobes = []
    minr = 1e9
    for _ in range(nl):
        hi = max(75.0 / step, 1.6)
        if draw(st.integers(0, 2)) == 0:
            ratio = draw(fl(1.5, min(2.6, hi)))          # narrow but resolved lobes (the hard end of the stated domain)
        else:
            ratio = math.exp(draw(fl(math.log(1.5), math.log(hi))))
        minr = min(minr, ratio)
        lobes.append((draw(fl(0.2, 1.0)), draw(fl(-math.pi, math.pi)), GM.kappa_for_spread(ratio * step)))
    if nl == 2 and draw(st.integers(0, 2)) == 0:
        # a narrow dominant lobe with a weak secondary one (the shape on which Newton's line search rejects steps)
        lobes[0] = (1.0, lobes[0][1], GM.kappa_for_spread(draw(fl(1.5, 3.0)) * step))
        lobes[1] = (draw(fl(0.05, 0.3)), lobes[1][1],
                    GM.kappa_for_spread(draw(fl(1.5, 3.0)) * step) if draw(st.booleans()) else lobes[1][2])
        minr = min(minr, 1.5)
    bg = draw(st.sampled_from([0.0, 0.0, 0.01, 0.05, 0.3]))
    return {"m": GM.mixture_moments(lobes, bg), "min_ratio": minr, "lobes": nl}


# ----------------------------------------------------------------------------- fidelity
@st.composite
def fidelity_case(draw):
    N = draw(st.sampled_from(NS + [144, 72]))      # the finer grids (more iterations, tighter lobes) twice as often
    # optionally an earlier call of the same estimator with non-default (looser) optional solver settings
    prior = draw(st.sampled_from([None, None, None, {"atol": 0.25, "max_iter": 5}, {"max_iter": 2}, {"atol": 0.1},
                                  {"max_line_search_depth": 1, "rcond": 1e-2}]))
    # optionally the quadruple is one cell of a (points x frequencies) batch whose other cells hold the same sea
    # turned by whole bins; the arrays are C ordered, Fortran ordered or transposed views (frequency-first storage)
    batch = None
    if draw(st.integers(0, 3)) == 0:
        p_, q_ = draw(st.integers(1, 3)), draw(st.integers(2, 3))
        batch = {"shape": [p_, q_], "pos": [draw(st.integers(0, p_ - 1)), draw(st.integers(0, q_ - 1))],
                 "order": draw(st.sampled_from(["C", "F", "T"])),
                 # the neighbouring cells hold the same sea turned by whole bins, or very different, sharply peaked
                 # moments (the repository's hard cases, turned): nothing may carry over from one cell to the next
                 "others": draw(st.sampled_from(["turned", "hard"]))}
    return {"N": N, **draw(resolved_moments(N)), "prior_solver_config": prior, "batch": batch,
            "grid_form": draw(st.sampled_from(GRID_FORMS)), "grid_roll": draw(st.integers(1, N - 1))}


def turned(m, phi):
    c1, s1, c2, s2 = math.cos(phi), math.sin(phi), math.cos(2 * phi), math.sin(2 * phi)
    return np.array([m[0] * c1 - m[1] * s1, m[0] * s1 + m[1] * c1, m[2] * c2 - m[3] * s2, m[2] * s2 + m[3] * c2])


def run_fidelity(c):
    est = _est()
    N = c["N"]
    d, th, step = grid(N, c.get("grid_form", "0_360"), c.get("grid_roll", 0))
    m = np.array(c["m"])
    a = [np.array([x]) for x in m]
    out = {}
    if c.get("prior_solver_config"):
        # settings passed to one call are that call's only: the default-settings calls below must still meet the
        # documented tolerance (the estimators are functions of their arguments, not of the call history)
        Dp = np.asarray(est(*a, d, method="mem2", solution_method="newton", solver_config=dict(c["prior_solver_config"])))[0]
        require(Dp.shape == (N,) and np.isfinite(Dp).all(), "call_with_solver_config_returns_distribution", f"{Dp.shape}")
    bt = c.get("batch")
    b = bt
    cells = None
    if b:
        p_, q_ = b["shape"]
        cells = np.empty((p_, q_, 4))
        for i in range(p_):
            for j in range(q_):
                shift = 0 if [i, j] == b["pos"] else (1 + i * q_ + j)
                if b.get("others") == "hard" and shift:
                    cells[i, j] = turned(np.array(GM.HARD[shift % len(GM.HARD)]), shift * math.radians(step))
                else:
                    cells[i, j] = turned(m, shift * math.radians(step))
        if b["order"] == "F":
            a = [np.asfortranarray(cells[..., k]) for k in range(4)]
        elif b["order"] == "T":
            a = [np.ascontiguousarray(cells[..., k].T).T for k in range(4)]      # transposed view of frequency-first data
        else:
            a = [np.ascontiguousarray(cells[..., k]) for k in range(4)]
    for name, kw in (("mem", dict(method="mem")), ("newton", dict(method="mem2", solution_method="newton")),
                     ("scipy", dict(method="mem2", solution_method="scipy"))):
        Dall = np.asarray(est(*a, d, **kw))
        if b:
            require(Dall.shape == (p_, q_, N), "output_shape", f"{name}: {Dall.shape}")
            # every cell of the batch holds the estimate for ITS moments
            for i in range(p_):
                for j in range(q_):
                    if b.get("others") == "hard" and [i, j] != b["pos"]:
                        continue              # the hard cases are not resolved seas: nothing is asserted about them here
                    mc = moments_of(Dall[i, j], th, step)
                    if name == "mem":
                        refc = mem_reference(cells[i, j], th) * math.pi / 180
                        require(np.abs(Dall[i, j] - refc).max() <= 1e-9 * refc.max(), "batch_cell_mem_equals_closed_form_of_its_moments",
                                f"N={N} cell=({i},{j}) of {b['shape']} order={b['order']}")
                    else:
                        require(float(np.linalg.norm(mc - cells[i, j])) <= 0.0101, "batch_cell_mem2_reproduces_its_moments",
                                f"{name}: N={N} others={b.get('others')} cell=({i},{j}) of {b['shape']} order={b['order']} recomputed={mc.tolist()} moments={cells[i, j].tolist()}")
            D = Dall[b["pos"][0], b["pos"][1]]
        else:
            D = Dall[0]
        out[name] = (D, moments_of(D, th, step))
    for name in ("newton", "scipy"):
        err = float(np.linalg.norm(out[name][1] - m))
        require(err <= 0.0101, f"mem2_{name}_reproduces_moments",
                f"N={N} moments={m.tolist()} recomputed={out[name][1].tolist()} norm={err:.4e}")
    dd = float(np.linalg.norm(out["newton"][1] - out["scipy"][1]))
    require(dd <= 0.02, "newton_and_scipy_agree", f"N={N} moments={m.tolist()} diff={dd:.4e}")
    # MEM: differential against the closed form
    ref = mem_reference(m, th) * math.pi / 180
    Dm = out["mem"][0]
    require(np.abs(Dm - ref).max() <= 1e-9 * ref.max(), "mem_equals_lygre_krogstad_closed_form",
            f"N={N} moments={m.tolist()} max rel diff={np.abs(Dm - ref).max() / ref.max():.3e}")
    err = float(np.linalg.norm(out["mem"][1] - m))
    b = [x for x in BUCKETS if c["min_ratio"] >= x][-1]
    classes = [f"N{N}", f"lobes{c['lobes']}", f"spread_ge_{b}_bins"]
    if (N, b) in MEM_OBSERVED:
        # 3 x the calibration maximum, but never below 1e-4: the calibration sample (a few thousand mixtures per cell)
        # under-estimates the tail - the thorough tier (113 000 cases) exceeded 3 x 2.8e-6 by 2 % for N=24
        bound = min(0.15, max(3 * MEM_OBSERVED[(N, b)] + 1e-6, 1e-4))
        require(err <= bound, "mem_reproduces_moments_within_grid_bound",
                f"N={N} spread/bin>={b} moments={m.tolist()} norm={err:.4e} bound={bound:.4e}")
        classes.append("mem_bound_asserted")
    if c.get("prior_solver_config"):
        classes.append("after_a_call_with_optional_solver_settings")
    classes.append("direction_grid_labels_" + c.get("grid_form", "0_360"))
    if bt:
        classes.append("cell_of_a_batch_order_" + bt["order"])
        classes.append("batch_neighbours_" + bt.get("others", "turned"))
    R = math.hypot(m[0], m[1])
    return {"nontrivial": R > 0.05, "classes": classes}


# ----------------------------------------------------------------------------- equivariance
@st.composite
def equiv_case(draw):
    N = draw(st.sampled_from(NS))
    if draw(st.integers(0, 3)) == 0:
        q = {"m": list(draw(st.sampled_from(GM.HARD))), "min_ratio": 0.0, "lobes": 0}
        if N != 36:
            N = 36
    else:
        q = draw(resolved_moments(N))
    return {"N": N, **q, "k": draw(st.one_of(st.integers(0, N - 1), st.sampled_from([1, N - 1, N // 2]))),
            "mirror": draw(st.booleans()), "variant": draw(st.sampled_from(["mem", "newton", "scipy"]))}


def run_equiv(c):
    est = _est()
    N, k = c["N"], c["k"]
    d, th, step = grid(N)
    m = list(c["m"])
    kw = {"mem": dict(method="mem"), "newton": dict(method="mem2", solution_method="newton"),
          "scipy": dict(method="mem2", solution_method="scipy")}[c["variant"]]
    D0 = np.asarray(est(*[np.array([x]) for x in m], d, **kw))[0]
    m1 = GM.mirror(m) if c["mirror"] else m
    m1 = GM.rotate(m1, math.radians(k * step))
    D1 = np.asarray(est(*[np.array([x]) for x in m1], d, **kw))[0]
    ref = D0
    if c["mirror"]:
        ref = ref[(-np.arange(N)) % N]
    ref = np.roll(ref, k)
    tol = (2e-2 if c["variant"] == "scipy" else 1e-6) * float(ref.max())
    diff = float(np.abs(D1 - ref).max())
    require(diff <= tol, "rotating_or_mirroring_moments_rotates_or_mirrors_distribution",
            f"variant={c['variant']} N={N} k={k} mirror={c['mirror']} moments={m} max diff={diff:.3e} tol={tol:.3e}")
    R = math.hypot(m[0], m[1])
    classes = ["variant_" + c["variant"], f"N{N}", "mirror" if c["mirror"] else "rotate",
               "hard_case" if c["lobes"] == 0 else "resolved"]
    return {"nontrivial": R > 0.05 and (k != 0 or c["mirror"]), "classes": classes}


def fixed_equiv():
    out = []
    for i, h in enumerate(GM.HARD):
        for v in ("mem", "newton", "scipy"):
            out.append({"N": 36, "m": list(h), "min_ratio": 0.0, "lobes": 0, "k": 1 + 7 * i, "mirror": bool(i % 2),
                        "variant": v})
    return out


# ----------------------------------------------------------------------------- jacobian
@st.composite
def jac_case(draw):
    N = draw(st.sampled_from(NS + [12, 180]))
    src = draw(st.sampled_from(["box", "box", "initial_value"]))
    if src == "box":
        lam = draw(st.lists(fl(-6.0, 6.0), min_size=4, max_size=4))
    else:
        lam = None
    q = draw(GM.quadruple(kinds=("vm1", "vm2", "noisy")))
    return {"N": N, "lambda": lam, "m": q["m"]}


def run_jac(c):
    from ocean_science_utilities.wavespectra.estimators import mem2 as M
    from ocean_science_utilities.wavespectra.estimators.utils import get_direction_increment
    N = c["N"]
    _, th, _ = grid(N)
    tw = np.empty((4, N))
    tw[0], tw[1], tw[2], tw[3] = np.cos(th), np.sin(th), np.cos(2 * th), np.sin(2 * th)
    inc = np.asarray(get_direction_increment(th))
    require(np.allclose(inc, 2 * math.pi / N, rtol=1e-9), "direction_increment_uniform", f"{inc[:3]}")
    m = np.array(c["m"])
    if c["lambda"] is None:
        lam = np.asarray(M.initial_value(m[0:1], m[1:2], m[2:3], m[3:4]))[0].astype(float)
    else:
        lam = np.array(c["lambda"], dtype=float)
    J = np.array(M.mem2_jacobian(lam.copy(), tw, inc, np.empty((4, 4))))
    require(np.isfinite(J).all(), "jacobian_finite", f"{J}")
    require(np.abs(J - J.T).max() <= 1e-12 * (np.abs(J).max() + 1), "jacobian_symmetric", f"{J}")
    h = 1e-5
    fd = np.empty((4, 4))
    for j in range(4):
        e = np.zeros(4)
        e[j] = h
        fp = np.asarray(M.moment_constraints(lam + e, tw, m, inc))
        fm = np.asarray(M.moment_constraints(lam - e, tw, m, inc))
        fd[:, j] = (fp - fm) / (2 * h)
    err = float(np.abs(J - fd).max())
    tol = 1e-5 * (float(np.linalg.norm(J)) + 1.0)
    require(err <= tol, "jacobian_is_derivative_of_moment_constraints",
            f"N={N} lambda={lam.tolist()} max|J-FD|={err:.3e} tol={tol:.3e}\nJ={J.tolist()}\nFD={fd.tolist()}")
    # constraint function consistency: f(lambda) = m - moments(dist(lambda))
    dist = np.asarray(M.mem2_directional_distribution(lam.copy(), inc, tw))
    mm = np.array([(tw[i] * dist * inc).sum() for i in range(4)])
    f0 = np.asarray(M.moment_constraints(lam.copy(), tw, m, inc))
    require(np.abs(f0 - (m - mm)).max() <= 1e-10, "moment_constraints_definition", f"{f0} vs {m - mm}")
    require(abs((dist * inc).sum() - 1) <= 1e-10 and dist.min() >= 0, "mem2_distribution_normalised", "")
    return {"nontrivial": float(np.linalg.norm(lam)) > 0.1, "classes": [f"N{N}", "lambda_" + ("box" if c["lambda"] else "initial")]}


SUBCHECKS = [
    SubCheck("moment_fidelity", lambda tier: fidelity_case(), run_fidelity, {"quick": 500, "thorough": 3000}),
    SubCheck("equivariance", lambda tier: equiv_case(), run_equiv, {"quick": 220, "thorough": 2500},
             fixed=fixed_equiv),
    SubCheck("jacobian", lambda tier: jac_case(), run_jac, {"quick": 300, "thorough": 2500}),
]


def warmup():
    from .c05 import warmup as w
    w()
