"""C10 — roughness lengths satisfy their defining implicit equations."""
import math

import numpy as np
from hypothesis import strategies as st

from ..gen import windsea as W
from ..gen.common import fl, log_uniform
from ..harness import SubCheck, require
from .c08 import GEN_DEFAULTS

KAPPA, G, NU = 0.4, 9.81, 1.48e-5
RHO_AIR = 1.225

META = {
    "level": "exploration",
    "rule": ("Charnock: U in [0.1,80] m/s (log-uniform and sorted ladders), Charnock constant 0.005..0.04, viscous "
             "constant 0 / 0.11 / random, scalar / ndarray / DataArray inputs with NaNs. Janssen: C08-style JONSWAP/PM/"
             "swell+sea points x winds (U10 or friction velocity) x default/perturbed parameters; the balance function "
             "F(l)=rho_a u*(e^l)^2 - stress(z0=e^l) is scanned independently on 240 points of l in (-20,0) through the "
             "public stress() API. Non-trivial: Charnock - finite U whose z0 differs > 1 % from the Wu first guess; "
             "Janssen - exactly one sign change and a finite returned roughness. Distinct = sha1 of the case."
             " One Charnock case in twelve is a long record (1100 or 2600 winds in one call, log-uniform over the range, 2 % NaN)."
             " Charnock inputs of even length >= 4 are also passed as 2-D fields in C, Fortran or transposed layout."),
    "assumptions": [
        "in half of the cases the source-term / balance objects have been used before on a spectrum with another grid of the same shape (object reuse); every clause must hold regardless",
        "Charnock residual |z0 - (alpha u*^2/g + c nu/u*)| <= 2e-4*z0 + 2e-8 m (the solver stops on 1e-4 relative to max(|z0|,1e-4), i.e. 1e-8 m absolute for small z0)",
        "drag coefficient compared with (kappa/ln(10/z0))^2 at 1e-12 relative using the returned z0",
        "monotonicity in U asserted for wind speeds at least 1 % apart, viscous term off",
        "Janssen residual |F(ln z0)| <= 1e-4 * rho_a u*^2, asserted only when the independent scan shows exactly one sign change in (e^-20,1) m; NaN results are allowed by the property",
    ],
}


def _rough():
    from ocean_science_utilities.wavephysics import roughness
    return roughness


# ----------------------------------------------------------------------------- Charnock
@st.composite
def charnock_case(draw):
    form = draw(st.sampled_from(["scalar", "ndarray", "ndarray", "dataarray", "ladder"]))
    if draw(st.integers(0, 11)) == 0:
        # a long record in one call (a year of hourly winds, a model field): thousands of elements over the whole range
        form = draw(st.sampled_from(["ndarray", "dataarray"]))
        n = draw(st.sampled_from([1100, 2600]))
        rng = np.random.default_rng(draw(st.integers(0, 2 ** 32 - 1)))      # seeded by a drawn value: deterministic
        U = np.exp(rng.uniform(math.log(0.1), math.log(80.0), n))
        U[rng.uniform(size=n) < 0.02] = float("nan")
        return {"form": form, "U": [float(x) for x in U], "alpha": draw(st.one_of(st.just(0.012), fl(0.005, 0.04))),
                "visc": draw(st.sampled_from([0.0, 0.11])), "long_record": True}
    if form == "scalar":
        U = [draw(st.one_of(log_uniform(0.1, 80.0), log_uniform(0.1, 80.0), st.sampled_from([0.1, 80.0]), fl(60.0, 80.0)))]
    elif form == "ladder":
        u0 = draw(log_uniform(0.1, 20.0))
        n = draw(st.integers(2, 12))
        r = draw(fl(1.01, 1.6))
        U = [min(80.0, u0 * r ** i) for i in range(n)]
        U = sorted(set(U))
    else:
        n = draw(st.integers(1, 12))
        U = [draw(st.one_of(log_uniform(0.1, 80.0), st.just(float("nan")))) if draw(st.integers(0, 4)) == 0
             else draw(st.one_of(log_uniform(0.1, 80.0), log_uniform(0.1, 80.0), st.sampled_from([0.1, 80.0]), fl(60.0, 80.0)))
             for _ in range(n)]
    return {"form": form, "U": U, "alpha": draw(st.one_of(st.just(0.012), fl(0.005, 0.04))),
            "visc": draw(st.sampled_from([0.0, 0.0, 0.11])) if draw(st.booleans()) else draw(fl(0.0, 0.3)),
            "layout_2d": draw(st.sampled_from([None, None, "c_order", "transposed_view", "fortran"]))}


def run_charnock(c):
    import xarray
    R = _rough()
    U = np.array(c["U"], dtype=float)
    form = c["form"]
    lay2 = c.get("layout_2d")
    if lay2 and len(U) >= 4 and len(U) % 2 == 0:
        # a two-dimensional field (time x station) stored transposed / in Fortran order: same values, same shape,
        # another memory layout
        U2 = U.reshape(2, -1)
        if lay2 == "transposed_view":
            arr = np.ascontiguousarray(U2.T).T
        elif lay2 == "fortran":
            arr = np.asfortranarray(U2)
        else:
            arr = U2.copy()
        arg = xarray.DataArray(arr, dims=["station", "time"]) if form == "dataarray" else arr
    elif form == "scalar":
        arg = float(U[0])
    elif form == "dataarray":
        arg = xarray.DataArray(U.copy(), dims=["time"])
    else:
        arg = U.copy()
    alpha, cv = c["alpha"], c["visc"]
    out = R.charnock_roughness_length_from_u10(arg, charnock_constant=alpha, viscous_constant=cv)
    z = np.asarray(out.values if hasattr(out, "values") else out, dtype=float).reshape(-1)
    require(z.shape == U.shape, "output_shape", f"{z.shape} vs {U.shape}")
    nontriv = False
    for u, z0 in zip(U, z):
        if math.isnan(u):
            require(math.isnan(z0), "missing_wind_gives_missing_roughness", f"U=nan z0={z0}")
            continue
        require(math.isfinite(z0) and 0 < z0 < 10, "roughness_positive_finite", f"U={u} z0={z0}")
        us = KAPPA * u / math.log(10.0 / z0)
        rhs = alpha * us ** 2 / G + (cv * NU / us if us > 0 else 0.0)
        require(abs(z0 - rhs) <= 2e-4 * z0 + 2e-8, "charnock_implicit_equation",
                f"U={u!r} alpha={alpha} c_visc={cv} z0={z0!r} alpha*u*^2/g+c*nu/u*={rhs!r} rel={abs(z0 - rhs) / z0:.2e}")
        wu = 10.0 / math.exp(KAPPA / math.sqrt((0.8 + 0.065 * u) / 1000))
        if abs(z0 - wu) > 0.01 * wu:
            nontriv = True
    cd = R.drag_coefficient_charnock(arg, charnock_constant=alpha, viscous_constant=cv)
    cd = np.asarray(cd.values if hasattr(cd, "values") else cd, dtype=float).reshape(-1)
    fin = np.isfinite(U)
    with np.errstate(all="ignore"):
        ref = (KAPPA / np.log(10.0 / z)) ** 2
    require(np.isnan(cd[~fin]).all(), "missing_wind_gives_missing_drag", f"{cd}")
    require((np.abs(cd[fin] - ref[fin]) <= 1e-9 * ref[fin]).all(), "drag_coefficient_is_log_law",
            lambda: f"cd={cd[fin]} ref={ref[fin]}")
    if cv == 0.0 and fin.sum() >= 2:
        order = np.argsort(U[fin])
        us, zs, cs = U[fin][order], z[fin][order], cd[fin][order]
        for i in range(len(us) - 1):
            if us[i + 1] >= 1.01 * us[i]:
                require(zs[i + 1] > zs[i] and cs[i + 1] > cs[i], "roughness_and_drag_increase_with_wind_speed",
                        f"U={us[i]},{us[i + 1]} z0={zs[i]!r},{zs[i + 1]!r} cd={cs[i]!r},{cs[i + 1]!r}")
    classes = ["input_" + form, "viscous" if cv else "no_viscous"]
    if (~fin).any():
        classes.append("has_nan")
    if c.get("long_record"):
        classes.append("long_record_over_1000_winds_in_one_call")
    if lay2 and len(U) >= 4 and len(U) % 2 == 0:
        classes.append("two_dimensional_input_" + lay2)
    return {"nontrivial": nontriv, "classes": classes}


def fixed_charnock():
    # the corners of the stated domain (U in [0.1, 80], Charnock constant in [0.005, 0.04], with / without viscous term)
    corners = [{"form": form, "U": [u] if form == "scalar" else [u, 3.0, u], "alpha": a, "visc": v}
               for form in ("scalar", "ndarray") for u in (0.1, 80.0) for a in (0.005, 0.04) for v in (0.0, 0.11, 0.3)]
    return corners + [{"form": "scalar", "U": [10.0], "alpha": 0.012, "visc": 0.0},
            {"form": "scalar", "U": [0.1], "alpha": 0.012, "visc": 0.11},
            {"form": "ndarray", "U": [0.1, 5.0, float("nan"), 80.0], "alpha": 0.012, "visc": 0.0},
            {"form": "dataarray", "U": [3.0, 30.0], "alpha": 0.03, "visc": 0.11}]


# ----------------------------------------------------------------------------- Janssen
@st.composite
def janssen_case(draw):
    steep = draw(st.sampled_from([(0.02, 0.08), (0.02, 0.08), None]))
    c = draw(W.sea_case(max_points=3, kinds=("jonswap", "jonswap", "pm", "swell_sea"), max_nf=24, steep=steep))
    c.update({"input_type": draw(st.sampled_from(["u10", "u10", "friction_velocity", "ustar", "ustar"])),
              # friction velocities for the two friction-velocity labels, 0.05 .. 2 m/s
              "ustar_values": [draw(log_uniform(0.05, 2.0)) for _ in c["points"]],
              "gen_params": {k: draw(fl(0.5, 1.5)) for k in GEN_DEFAULTS} if draw(st.integers(0, 2)) == 0 else {},
              "viscous": draw(st.sampled_from([0.0, 0.0, 0.1])),
              "aligned": draw(st.booleans()),
              "reuse_terms": draw(st.booleans()),
              # U10 as stored in an integer array (whole metres per second)
              "integer_winds": draw(st.integers(0, 3)) == 0})
    return c


NSCAN = 240


def run_janssen(c):
    from ocean_science_utilities.wavephysics.balance.factory import create_wind_source_term
    gen = create_wind_source_term("st4")
    gp = dict(gen._parameters)
    for k, m in c["gen_params"].items():
        gp[k] = gp[k] * m
    gp["viscous_stress_parameter"] = c["viscous"]
    gen._parameters = gp
    if c.get("reuse_terms"):
        W.prime_terms(c, gen)
    kappa, rho, elev = gp["vonkarman_constant"], gp["air_density"], gp["elevation"]
    E = W.densities(c)
    n = E.shape[0]
    spec = W.build(c, E)
    it = c["input_type"]
    wdir_v = [p.get("theta", 0.0) if c["aligned"] else w for p, w in zip(c["points"], c["wdir"])]
    speed_v = list(c["u10"]) if it == "u10" else list(c.get("ustar_values") or [u / 28.0 for u in c["u10"]])
    int_winds = bool(c.get("integer_winds")) and it == "u10"
    if int_winds:
        speed_v = [float(max(1, round(u))) for u in speed_v]
    speed, wdir = W.da(speed_v, spec), W.da(wdir_v, spec)
    if int_winds:
        speed = speed.astype("int64")
    z = np.asarray(gen.roughness(speed, wdir, spec, wind_speed_input_type=it).values, dtype=float)
    require(z.shape == (n,), "output_shape", f"{z.shape}")
    classes = ["input_" + it]
    if c.get("reuse_terms"):
        classes.append("term_object_used_before_on_another_grid_of_the_same_shape")
    if int_winds:
        classes.append("integer_stored_winds")
    nontriv = False
    single = 0
    ells = np.linspace(-20.0, 0.0, NSCAN + 2)[1:-1]
    # the total stress contains the viscous contribution c*rho_a*u**nu/(kappa*z0) along the wind
    if c["viscous"]:
        zfix = W.da([math.exp(-8.0 - 0.5 * i) for i in range(n)], spec)
        with_v = gen.stress(spec, speed, wdir, roughness_length=zfix, wind_speed_input_type=it)
        gen0 = create_wind_source_term("st4")
        gen0._parameters = dict(gp, viscous_stress_parameter=0.0)
        no_v = gen0.stress(spec, speed, wdir, roughness_length=zfix, wind_speed_input_type=it)
        for i in range(n):
            m1, d1 = float(with_v["stress"].values[i]), math.radians(float(with_v["direction"].values[i]))
            m0, d0 = float(no_v["stress"].values[i]), math.radians(float(no_v["direction"].values[i]))
            if not all(map(math.isfinite, (m1, d1, m0, d0))):
                continue
            zi = float(zfix.values[i])
            ust = kappa * speed_v[i] / math.log(elev / zi) if it == "u10" else speed_v[i]
            visc = c["viscous"] * rho * ust * gp["air_viscosity"] / kappa / zi
            dx = m1 * math.cos(d1) - m0 * math.cos(d0)
            dy = m1 * math.sin(d1) - m0 * math.sin(d0)
            wx, wy = math.cos(math.radians(wdir_v[i])), math.sin(math.radians(wdir_v[i]))
            require(abs(dx - visc * wx) <= 1e-9 * (m1 + visc) and abs(dy - visc * wy) <= 1e-9 * (m1 + visc),
                    "total_stress_includes_viscous_stress_along_the_wind",
                    f"point {i}: expected viscous vector {(visc * wx, visc * wy)!r}, stress difference {(dx, dy)!r}")
        classes.append("viscous_term_checked")
    for i in range(n):
        zi = z[i]
        require(math.isnan(zi) or zi > 0, "janssen_roughness_missing_or_positive", f"point {i}: z0={zi!r}")
        if not math.isfinite(zi):
            classes.append("roughness_nan")
        # independent scan of the balance function through the public stress() API
        Es = np.repeat(E[i:i + 1], NSCAN, axis=0)
        ss = W.build(c, Es, [c["depth"][i]] * NSCAN)
        sp = W.da([speed_v[i]] * NSCAN, ss)
        wd = W.da([wdir_v[i]] * NSCAN, ss)
        ncut = NSCAN
        try:
            tau = np.asarray(gen.stress(ss, sp, wd, roughness_length=W.da(np.exp(ells), ss),
                                        wind_speed_input_type=it)["stress"].values, dtype=float)
        except ValueError:
            # the tail-stress closure often cannot be evaluated for roughness lengths above e^-1.5 = 0.22 m (its own root
            # finder does not converge there): scan only up to that length; if even that fails the point is skipped
            ncut = int((ells <= -1.5).sum())
            try:
                sc_ = W.build(c, Es[:ncut], [c["depth"][i]] * ncut)
                tau_lo = np.asarray(gen.stress(sc_, W.da([speed_v[i]] * ncut, sc_), W.da([wdir_v[i]] * ncut, sc_),
                                               roughness_length=W.da(np.exp(ells[:ncut]), sc_),
                                               wind_speed_input_type=it)["stress"].values, dtype=float)
            except ValueError:
                classes.append("scan_failed")
                continue
            tau = np.concatenate([tau_lo, np.full(NSCAN - ncut, tau_lo[-1])])
            classes.append("scan_limited_to_z0_below_0.22m")
        ust = kappa * speed_v[i] / np.log(elev / np.exp(ells)) if it == "u10" else np.full(NSCAN, speed_v[i])
        F = rho * ust ** 2 - tau
        F[ncut:] = F[ncut - 1]                 # no sign change is counted in the part that could not be evaluated
        if not np.isfinite(F).all():
            classes.append("scan_not_finite")
            continue
        changes = int((np.sign(F[1:]) != np.sign(F[:-1])).sum())
        if changes == 1:
            single += 1
            if math.isfinite(zi):
                s1 = W.build(c, E[i:i + 1], [c["depth"][i]])
                try:
                    t1 = float(gen.stress(s1, W.da([speed_v[i]], s1), W.da([wdir_v[i]], s1),
                                          roughness_length=W.da([zi], s1), wind_speed_input_type=it)["stress"].values[0])
                except ValueError:
                    classes.append("scan_failed")
                    continue
                u1 = kappa * speed_v[i] / math.log(elev / zi) if it == "u10" else speed_v[i]
                res = rho * u1 ** 2 - t1
                require(abs(res) <= 1e-4 * rho * u1 ** 2, "janssen_roughness_balances_total_stress",
                        f"point {i}: {it}={speed_v[i]} wind_dir={wdir_v[i]} z0={zi!r} rho*u*^2={rho * u1 ** 2!r} "
                        f"stress={t1!r} relative residual={abs(res) / (rho * u1 ** 2):.3e}")
                # and the returned root lies in the bracket found by the scan
                j = int(np.nonzero(np.sign(F[1:]) != np.sign(F[:-1]))[0][0])
                require(ncut < NSCAN and math.log(zi) > ells[ncut - 1] or
                        ells[j] - 1e-3 <= math.log(zi) <= ells[j + 1] + 1e-3, "janssen_roughness_is_the_scanned_root",
                        f"point {i}: ln z0={math.log(zi)} bracket=({ells[j]},{ells[j + 1]})")
                nontriv = True
        else:
            classes.append(f"sign_changes_{min(changes, 3)}")
    if single:
        classes.append("single_root")
    return {"nontrivial": nontriv, "classes": sorted(set(classes)),
            "class_counts": {"janssen_points": n, "janssen_points_single_root": single}}


def finalize(rec):
    tot = rec.classes.get("janssen_points", 0)
    one = rec.classes.get("janssen_points_single_root", 0)
    if tot and one < 0.3 * tot:
        rec.notes.append(f"degenerate_generator: only {one}/{tot} Janssen points have a single root")


SUBCHECKS = [
    SubCheck("charnock", lambda tier: charnock_case(), run_charnock, {"quick": 300, "thorough": 2500},
             fixed=fixed_charnock),
    SubCheck("janssen", lambda tier: janssen_case(), run_janssen, {"quick": 60, "thorough": 400}),
]


def warmup():
    c = {"nf": 8, "nd": 16, "fkind": "geometric", "f0": 0.05, "t0": 0.0,
         "points": [{"kind": "jonswap", "hs": 2.0, "fp": 0.12, "gamma": 3.3, "theta": 30.0, "power": 5}],
         "depth": [float("inf")], "u10": [10.0], "wdir": [30.0], "input_type": "u10", "gen_params": {},
         "viscous": 0.0, "aligned": False}
    run_janssen(c)
    run_janssen(dict(c, input_type="friction_velocity"))
