"""C17 — time conversions denote the same UTC instant for every input representation."""
import calendar
from datetime import date, datetime, timedelta, timezone

import numpy as np
from hypothesis import strategies as st

from ..harness import SubCheck, require

EPOCH = datetime(1970, 1, 1, tzinfo=timezone.utc)
US_MAX = 4102444800 * 10 ** 6  # 2100-01-01

META = {
    "level": "exploration",
    "technique": "property-based testing (hypothesis) against integer-microsecond oracles, plus a coverage-guided atheris/libFuzzer campaign with the oracle inside the target",
    "rule": ("instants drawn as integer microseconds in [1970, 2100) (whole seconds, ms, us and boundary-"
             "aimed: first/last second of months and years), rendered independently into every supported "
             "representation (aware/naive datetime, ISO string with Z / +-hh:mm / no zone and 0-6 fraction "
             "digits, int/float/numpy epoch seconds, datetime64[s|ms|us|ns]) and into list/tuple/ndarray/"
             "DataArray/Series containers, homogeneous and mixed; packed integers from generated calendar "
             "fields. Non-trivial = non-zero UTC offset, or fractional second, or within one day of a "
             "month/year boundary. Distinct = sha1 of the case."
             " Representations include pandas Timestamps, zoneinfo zones with daylight saving, int32 epochs, datetime64 in minutes/hours/days, and sequences mixed within one family of representations."),
    "assumptions": [
        "expected instant is integer arithmetic on microseconds since the epoch; the stdlib datetime/timedelta arithmetic is trusted",
        "float epoch seconds compared within 1 microsecond (double spacing near 4e9 s is 4.8e-7 s)",
        "datetime64 inputs may come back either exact or truncated to whole seconds (the statement only promises whole seconds)",
        "packed time encodings 00mm / 0000ss are numerically indistinguishable from hh / hhmm and are excluded by construction",
        "atheris/libFuzzer campaign (fuzz_iso_strings): bytes are decoded structure-aware into ISO-like strings (datetime.fromisoformat is C code, there is no coverage gradient), the oracle is an independent integer parser (days-from-civil) plus metamorphic relations; -runs and -seed are fixed by VERIF_SEED, empty and seeded corpus; strings rejected with ValueError/OverflowError are not violations",
    ],
}


def _T():
    from ocean_science_utilities.tools import time as T
    return T


def fields(us, off_min=0):
    """Calendar fields of the instant `us` (microseconds since epoch) seen at UTC offset off_min."""
    dt = EPOCH + timedelta(microseconds=us) + timedelta(minutes=off_min)
    return dt.year, dt.month, dt.day, dt.hour, dt.minute, dt.second, dt.microsecond


def iso_string(us, zone, off_min, digits):
    y, mo, d, h, mi, s, micro = fields(us, off_min if zone == "offset" else 0)
    out = f"{y:04d}-{mo:02d}-{d:02d}T{h:02d}:{mi:02d}:{s:02d}"
    if digits:
        out += "." + f"{micro:06d}"[:digits]
    if zone == "Z":
        out += "Z"
    elif zone == "offset":
        sign = "+" if off_min >= 0 else "-"
        a = abs(off_min)
        out += f"{sign}{a // 60:02d}:{a % 60:02d}"
    return out


OFFSETS = [0, 60, -60, 330, 345, -210, 570, 840, -720, 765, -570, 30, -30, 525]


@st.composite
def instant(draw):
    kind = draw(st.sampled_from(["sec", "sec", "ms", "us", "boundary", "boundary_us"]))
    if kind.startswith("boundary"):
        y = draw(st.integers(1970, 2099))
        m = draw(st.integers(1, 12))
        first = int((datetime(y, m, 1, tzinfo=timezone.utc) - EPOCH).total_seconds())
        delta = draw(st.sampled_from([0, 1, -1, 59, -60, 3599, -3600, 43200, -43200, 86399, -86399]))
        sec = max(0, first + delta)
        us = sec * 10 ** 6
        if kind == "boundary_us":
            us += draw(st.sampled_from([1, 999999, 500000, 123456]))
    else:
        sec = draw(st.integers(0, US_MAX // 10 ** 6 - 1))
        us = sec * 10 ** 6
        if kind == "ms":
            us += draw(st.integers(0, 999)) * 1000
        elif kind == "us":
            us += draw(st.integers(0, 999999))
    return min(us, US_MAX - 1)


SCALAR_REPS = ["aware", "naive", "iso_Z", "iso_offset", "iso_none", "int", "float", "np_int64",
               "np_float64", "dt64_s", "dt64_ms", "dt64_us", "dt64_ns",
               # less common spellings of the same kinds (added for seeded round 8): datetime subclasses,
               # zones with daylight saving, narrow integer types, coarse datetime64 units
               "aware_zone", "pd_aware", "pd_naive", "np_int32", "dt64_m", "dt64_h", "dt64_D"]
ZONES = ["America/New_York", "Europe/Amsterdam", "Australia/Lord_Howe", "Asia/Kathmandu", "Pacific/Chatham",
         "America/St_Johns", "UTC"]


@st.composite
def scalar_rep(draw, reps=SCALAR_REPS):
    us = draw(instant())
    rep = draw(st.sampled_from(reps))
    off = draw(st.sampled_from(OFFSETS)) if rep in ("aware", "iso_offset") else 0
    digits = 0
    if rep.startswith("iso"):
        frac = us % 10 ** 6
        if frac == 0:
            digits = draw(st.sampled_from([0, 0, 1, 3, 6]))
        else:
            need = 6
            while need > 1 and frac % (10 ** (6 - need + 1)) == 0:
                need -= 1
            digits = draw(st.integers(need, 6))
    us = quantise_us(us, rep)
    if rep in ("aware_zone", "pd_aware"):
        off = draw(st.integers(0, len(ZONES) - 1))      # index into ZONES
    return {"us": us, "rep": rep, "off": off, "digits": digits}


def quantise_us(us, rep):
    """The instant a representation can hold exactly (whole seconds for ints, the unit for datetime64)."""
    if rep in ("int", "np_int64", "dt64_s", "np_int32"):
        us = us - us % 10 ** 6
    if rep == "np_int32":
        us = min(us, (2 ** 31 - 1) * 10 ** 6)
    if rep == "dt64_ms":
        us = us - us % 1000
    if rep == "dt64_m":
        us = us - us % (60 * 10 ** 6)
    if rep == "dt64_h":
        us = us - us % (3600 * 10 ** 6)
    if rep == "dt64_D":
        us = us - us % (86400 * 10 ** 6)
    return us


def render(r):
    us, rep = r["us"], r["rep"]
    if rep == "aware":
        return (EPOCH + timedelta(microseconds=us)).astimezone(timezone(timedelta(minutes=r["off"])))
    if rep == "naive":
        return (EPOCH + timedelta(microseconds=us)).replace(tzinfo=None)
    if rep == "iso_Z":
        return iso_string(us, "Z", 0, r["digits"])
    if rep == "iso_offset":
        return iso_string(us, "offset", r["off"], r["digits"])
    if rep == "iso_none":
        return iso_string(us, "none", 0, r["digits"])
    if rep == "int":
        return us // 10 ** 6
    if rep == "float":
        return us / 1e6
    if rep == "np_int64":
        return np.int64(us // 10 ** 6)
    if rep == "np_float64":
        return np.float64(us / 1e6)
    if rep == "dt64_s":
        return np.datetime64(us // 10 ** 6, "s")
    if rep == "dt64_ms":
        return np.datetime64(us // 1000, "ms")
    if rep == "dt64_us":
        return np.datetime64(us, "us")
    if rep == "dt64_ns":
        return np.datetime64(us * 1000, "ns")
    if rep == "aware_zone":
        import zoneinfo
        return (EPOCH + timedelta(microseconds=us)).astimezone(zoneinfo.ZoneInfo(ZONES[r["off"]]))
    if rep == "pd_aware":
        import pandas as pd
        return pd.Timestamp(EPOCH + timedelta(microseconds=us)).tz_convert(ZONES[r["off"]])
    if rep == "pd_naive":
        import pandas as pd
        return pd.Timestamp((EPOCH + timedelta(microseconds=us)).replace(tzinfo=None))
    if rep == "np_int32":
        return np.int32(us // 10 ** 6)
    if rep == "dt64_m":
        return np.datetime64(us // (60 * 10 ** 6), "m")
    if rep == "dt64_h":
        return np.datetime64(us // (3600 * 10 ** 6), "h")
    if rep == "dt64_D":
        return np.datetime64(us // (86400 * 10 ** 6), "D")
    raise ValueError(rep)


def check_result(res, r, what):
    require(isinstance(res, datetime), "returns_datetime", f"{what}: {type(res).__name__} {res!r}")
    require(res.tzinfo is not None and res.utcoffset() == timedelta(0), "result_is_utc_aware",
            f"{what}: tzinfo={res.tzinfo!r}")
    got = (res - EPOCH) // timedelta(microseconds=1)
    us = r["us"]
    if r["rep"] in ("float", "np_float64"):
        ok = abs(got - us) <= 1
    elif r["rep"].startswith("dt64"):
        ok = got == us or got == us - us % 10 ** 6
    else:
        ok = got == us
    require(ok, "same_instant", f"{what}: rep={r['rep']} input={render(r)!r} expected_us={us} got_us={got} ({res.isoformat()})")


def nontrivial(r):
    us = r["us"]
    if r.get("off"):
        return True
    if us % 10 ** 6:
        return True
    y, mo, d, *_ = fields(us)
    last = calendar.monthrange(y, mo)[1]
    return d in (1, last)


# ----------------------------------------------------------------------------- scalar
def run_scalar(case):
    T = _T()
    x = render(case)
    res = T.to_datetime_utc(x)
    check_result(res, case, "to_datetime_utc")
    us = case["us"]
    fl_sec = us - us % 10 ** 6
    # to_datetime64 -> whole seconds, datetime64[ns]
    d64 = T.to_datetime64(x)
    require(isinstance(d64, np.datetime64), "to_datetime64_type", f"{type(d64)}")
    got_ns = int(d64.astype("datetime64[ns]").astype("int64"))
    tol = 1 if case["rep"] in ("float", "np_float64") else 0
    # floats within 1us of a whole second may legitimately land on either side
    cand = {fl_sec * 1000}
    if tol:
        cand |= {((us - 1) - (us - 1) % 10 ** 6) * 1000, ((us + 1) - (us + 1) % 10 ** 6) * 1000}
    require(got_ns in cand, "to_datetime64_whole_seconds",
            f"input={x!r} got_ns={got_ns} expected one of {sorted(cand)}")
    back = T.to_datetime_utc(d64)
    require(isinstance(back, datetime) and back.utcoffset() == timedelta(0), "roundtrip64_utc", f"{back!r}")
    require(((back - EPOCH) // timedelta(microseconds=1)) * 1000 == got_ns, "roundtrip_through_datetime64",
            f"input={x!r} d64={d64!r} back={back!r}")
    # iso string round trip (exact to the microsecond)
    s = T.datetime_to_iso_time_string(x)
    require(isinstance(s, str), "iso_string_type", f"{type(s)}")
    back2 = T.to_datetime_utc(s)
    exp = (res - EPOCH) // timedelta(microseconds=1)
    got2 = (back2 - EPOCH) // timedelta(microseconds=1)
    require(got2 == exp and back2.utcoffset() == timedelta(0), "iso_string_roundtrip",
            f"input={x!r} iso={s!r} back={back2!r}")
    return {"nontrivial": nontrivial(case), "classes": ["rep_" + case["rep"]]}


def fixed_scalar():
    out = []
    for us in (0, 1, 999999, 10 ** 6, 1668_000_042 * 10 ** 6, 951782400 * 10 ** 6 - 1,  # 2000-02-29
               US_MAX - 1, 2147483647 * 10 ** 6, 2147483648 * 10 ** 6):
        for rep in SCALAR_REPS:
            r = {"us": us, "rep": rep, "off": 345 if rep in ("aware", "iso_offset") else 0,
                 "digits": 6 if rep.startswith("iso") else 0}
            r["us"] = quantise_us(us, rep)
            if rep in ("aware_zone", "pd_aware"):
                r["off"] = 2
            out.append(r)
    return out


# ----------------------------------------------------------------------------- sequences
@st.composite
def seq_case(draw):
    cont = draw(st.sampled_from(["list", "tuple", "ndarray_obj", "ndarray_dt64", "ndarray_float",
                                 "ndarray_int", "dataarray_dt64", "series_dt64", "series_obj",
                                 "list_mixed", "nested_none"]))
    n = draw(st.integers(0 if cont in ("list", "tuple") else 1, 6))
    if cont in ("ndarray_dt64", "dataarray_dt64", "series_dt64"):
        unit = draw(st.sampled_from(["dt64_s", "dt64_ms", "dt64_us", "dt64_ns"]))
        items = [draw(scalar_rep([unit])) for _ in range(n)]
    elif cont == "ndarray_float":
        items = [draw(scalar_rep(["float"])) for _ in range(n)]
    elif cont == "ndarray_int":
        items = [draw(scalar_rep(["int"])) for _ in range(n)]
    elif draw(st.integers(0, 2)) == 0:
        # one family of representations, mixed inside it: a naive datetime followed by aware ones, strings with and
        # without zone, python and numpy numbers, datetime64 of several units in one object sequence
        fam = draw(st.sampled_from(FAMILIES))
        items = [draw(scalar_rep(fam)) for _ in range(max(n, 2))]
    elif cont in ("list", "tuple"):
        rep = draw(st.sampled_from(SCALAR_REPS))
        items = [draw(scalar_rep([rep])) for _ in range(n)]
    else:
        items = [draw(scalar_rep()) for _ in range(n)]
    return {"container": cont, "items": items}


FAMILIES = [["naive", "aware", "aware_zone", "pd_aware", "pd_naive"], ["naive", "aware"],
            ["iso_Z", "iso_offset", "iso_none"], ["int", "float", "np_int64", "np_float64", "np_int32"],
            ["dt64_s", "dt64_ms", "dt64_us", "dt64_ns", "dt64_m", "dt64_h", "dt64_D"]]


def build_seq(case):
    import pandas as pd
    import xarray
    vals = [render(r) for r in case["items"]]
    c = case["container"]
    if c in ("list", "list_mixed"):
        return vals
    if c == "nested_none":
        return vals
    if c == "tuple":
        return tuple(vals)
    if c == "ndarray_obj":
        a = np.empty(len(vals), dtype=object)
        for i, v in enumerate(vals):
            a[i] = v
        return a
    if c == "series_obj":
        return pd.Series(vals, dtype=object)
    if c == "ndarray_dt64":
        return np.array(vals, dtype=vals[0].dtype)
    if c == "dataarray_dt64":
        return xarray.DataArray(np.array(vals, dtype=vals[0].dtype).astype("datetime64[ns]"))
    if c == "series_dt64":
        return pd.Series(np.array(vals, dtype=vals[0].dtype).astype("datetime64[ns]"))
    if c == "ndarray_float":
        return np.array(vals, dtype="float64")
    if c == "ndarray_int":
        return np.array(vals, dtype="int64")
    raise ValueError(c)


def run_seq(case):
    T = _T()
    seq = build_seq(case)
    items = case["items"]
    res = T.to_datetime_utc(seq)
    require(isinstance(res, list) and len(res) == len(items), "sequence_elementwise_same_length",
            f"container={case['container']} len_in={len(items)} out={type(res).__name__} "
            f"len_out={len(res) if hasattr(res, '__len__') else None}")
    for i, (x, r) in enumerate(zip(res, items)):
        check_result(x, r, f"{case['container']}[{i}]")
    if items:
        d64 = T.to_datetime64(seq)
        require(isinstance(d64, np.ndarray) and d64.shape == (len(items),), "to_datetime64_array",
                f"{type(d64)}")
        for i, r in enumerate(items):
            got_ns = int(d64[i].astype("datetime64[ns]").astype("int64"))
            us = r["us"]
            cand = {(us - us % 10 ** 6) * 1000}
            if r["rep"] in ("float", "np_float64"):
                cand |= {((us - 1) - (us - 1) % 10 ** 6) * 1000, ((us + 1) - (us + 1) % 10 ** 6) * 1000}
            require(got_ns in cand, "to_datetime64_whole_seconds", f"[{i}] rep={r['rep']} got_ns={got_ns} expected {sorted(cand)}")
        back = T.to_datetime_utc(d64)
        require(len(back) == len(items), "roundtrip_length", "")
        for i, b in enumerate(back):
            require(((b - EPOCH) // timedelta(microseconds=1)) * 1000
                    == int(d64[i].astype("int64")), "roundtrip_through_datetime64", f"[{i}]")
    if case["container"] == "nested_none":
        require(T.to_datetime_utc(None) is None and T.to_datetime64(None) is None
                and T.datetime_to_iso_time_string(None) is None, "none_maps_to_none", "")
    reps = {r["rep"] for r in items}
    classes = ["cont_" + case["container"]]
    if len(reps) > 1:
        classes.append("heterogeneous")
        for fam in FAMILIES:
            if reps <= set(fam):
                classes.append("heterogeneous_within_family_" + fam[0])
                break
    return {"nontrivial": any(nontrivial(r) for r in items), "classes": classes}


# ----------------------------------------------------------------------------- packed ints
@st.composite
def packed_case(draw):
    long_year = draw(st.booleans())
    y = draw(st.integers(1970, 2100)) if long_year else draw(st.integers(2000, 2099))
    m = draw(st.integers(1, 12))
    last = calendar.monthrange(y, m)[1]
    d = draw(st.one_of(st.integers(1, last), st.sampled_from([1, last])))
    form = draw(st.sampled_from(["hh", "hhmm", "hhmmss"]))
    hh = draw(st.integers(0 if form == "hh" else 1, 23))
    mm = draw(st.integers(0, 59)) if form != "hh" else 0
    ss = draw(st.integers(0, 59)) if form == "hhmmss" else 0
    return {"long_year": long_year, "y": y, "m": m, "d": d, "form": form, "hh": hh, "mm": mm, "ss": ss}


def run_packed(case):
    T = _T()
    y, m, d = case["y"], case["m"], case["d"]
    date_int = (y if case["long_year"] else y - 2000) * 10000 + m * 100 + d
    if case["form"] == "hh":
        time_int = case["hh"]
    elif case["form"] == "hhmm":
        time_int = case["hh"] * 100 + case["mm"]
    else:
        time_int = case["hh"] * 10000 + case["mm"] * 100 + case["ss"]
    exp = datetime(y, m, d, case["hh"], case["mm"], case["ss"], tzinfo=timezone.utc)
    got = T.datetime_from_time_and_date_integers(date_int, time_int)
    require(isinstance(got, datetime) and got.tzinfo is not None and got.utcoffset() == timedelta(0)
            and got == exp, "packed_fields", f"date_int={date_int} time_int={time_int} got={got!r} exp={exp!r}")
    g64 = T.datetime_from_time_and_date_integers(date_int, time_int, as_datetime64=True)
    exp_s = int((exp - EPOCH).total_seconds())
    require(int(np.datetime64(g64, "s").astype("int64")) == exp_s, "packed_as_datetime64",
            f"date_int={date_int} time_int={time_int} got={g64!r}")
    last = calendar.monthrange(y, m)[1]
    return {"nontrivial": d in (1, last) or case["form"] != "hh",
            "classes": ["date_yyyymmdd" if case["long_year"] else "date_yymmdd", "time_" + case["form"]],
            "excluded": {"packed_time_00mm_or_0000ss": 0}}


# ----------------------------------------------------------------------------- atheris campaign
def fuzz_cases():
    import os
    tier = os.environ.get("VERIF_TIER_EFFECTIVE", "quick")
    shard = int(os.environ.get("VK_SHARD", "0"))
    seed = int(os.environ.get("VERIF_SEED", "1")) * 1000 + shard + 1
    return [{"runs": 40000 if tier == "quick" else 1500000, "fuzz_seed": seed, "corpus": "empty"},
            {"runs": 20000 if tier == "quick" else 500000, "fuzz_seed": seed + 500, "corpus": "seeded"}]


def run_fuzz(case):
    """libFuzzer/atheris campaign on to_datetime_utc(str) with the oracle inside the target."""
    import json
    import os
    import shutil
    import subprocess
    import sys
    import tempfile
    from .. import boot
    boot.ensure_package("atheris")
    work = tempfile.mkdtemp(prefix="vkfuzz_", dir=os.environ.get("TMPDIR") or tempfile.gettempdir())
    try:
        corpus = os.path.join(work, "corpus")
        os.makedirs(corpus)
        env = dict(os.environ, PYTHONPATH=boot.VERIF_ROOT + os.pathsep + boot.DEPS + os.pathsep + os.environ.get("PYTHONPATH", ""),
                   VK_FUZZ_SEED_CORPUS="1" if case["corpus"] == "seeded" else "0")
        p = subprocess.run([sys.executable, "-m", "vk.fuzz_c17", work, f"-runs={case['runs']}", f"-seed={case['fuzz_seed']}",
                            "-max_len=64", corpus], cwd=work, env=env, capture_output=True, text=True, timeout=3600)
        stats = {}
        if os.path.exists(os.path.join(work, "stats.json")):
            with open(os.path.join(work, "stats.json")) as fh:
                stats = json.load(fh)
        fpath = os.path.join(work, "failure.json")
        if os.path.exists(fpath):
            with open(fpath) as fh:
                f = json.load(fh)
            require(False, "fuzz_" + f["clause"], f"input={f['input']!r}: {f['detail']} (libFuzzer seed {case['fuzz_seed']})")
        if p.returncode != 0:
            tail = (p.stdout + p.stderr)[-1500:]
            if "Uncaught Python exception" in tail and "ocean_science_utilities" in tail:
                exc = [l for l in tail.splitlines() if "Error" in l][:1]
                require(False, "fuzz_uncaught_exception", f"{exc} (libFuzzer seed {case['fuzz_seed']})")
            raise RuntimeError("fuzz campaign failed: " + tail)
        n = int(stats.get("grammar", 0))
        return {"nontrivial": False,
                "sub_cases": [([case["fuzz_seed"], s], True) for s in stats.get("samples", [])],
                "class_counts": {"fuzz_executions": int(stats.get("executions", 0)), "fuzz_grammar_strings": n,
                                 "fuzz_accepted": int(stats.get("accepted", 0)), "fuzz_rejected": int(stats.get("rejected", 0)),
                                 "fuzz_corpus_" + case["corpus"]: 1}}
    finally:
        shutil.rmtree(work, ignore_errors=True)


SUBCHECKS = [
    SubCheck("scalar", lambda tier: scalar_rep(), run_scalar, {"quick": 3000, "thorough": 20000},
             fixed=fixed_scalar),
    SubCheck("sequence", lambda tier: seq_case(), run_seq, {"quick": 1200, "thorough": 8000}),
    SubCheck("packed", lambda tier: packed_case(), run_packed, {"quick": 1500, "thorough": 8000}),
    SubCheck("fuzz_iso_strings", None, run_fuzz, {"quick": 0, "thorough": 0}, fixed=fuzz_cases),
]
