"""C02 — directional integration conserves energy, bounds the moments; 1D reduction preserves
bulk parameters and metadata."""
import numpy as np
from hypothesis import strategies as st

from ..gen import spectra as GS
from ..harness import SubCheck, require
from ..oracle import spec as O

META = {
    "level": "exploration",
    "rule": ("generated non-negative 2D densities on direction grids covering the circle (uniform with any "
             "start angle, or non-uniform with gaps in (0.5,170) degrees, optionally rolled so the array does "
             "not start at its minimum; labelled in [0,360), in [-180,180) or unwrapped past 360; 8..144 bins), any frequency grid and leading dims, zero/NaN bins and "
             "all-zero frequency rows. Non-trivial = grid non-uniform or not starting at 0, and >= 2 non-zero "
             "directions; distinct = sha1 of the case."
             " Direction grids also include equally spaced labels with another wrap-around bin width; a second sub-check evaluates objects holding 160..1500 spectra (densities expanded from a seed) with NaN bins."
             " A quarter of the cases store the density direction-major (..., direction, frequency)."),
    "assumptions": [
        "oracle bin width = (theta[i+1]-theta[i]) mod 360 with wrap, computed independently; sums to 360 within 1e-9",
        "e and moment numerators compared within 1e-12*sum|terms|; moments (ratios) within 1e-11 where e>0; rows with e==0 yield NaN and are exempt from the bounds",
        "2D-vs-1D bulk parameters compared at 1e-11 relative (angles 1e-8 degree, skipped when the resultant R<1e-6)",
        "direction grids have every cyclic gap < 170 degrees (the wrapped forward difference assumes < 180)",
    ],
}


@st.composite
def case(draw):
    s = draw(GS.spec2d_case(max_nf=16, max_nd=144, max_cells=12000, relabel=True, history=True, dtypes=True))
    b = draw(GS.band(s["f"]))
    # storage order of the spectral dimensions: (..., frequency, direction) or direction-major (..., direction, frequency),
    # as allowed by the optional dims argument of the constructors
    return {"spec": s, **b, "dims_order": draw(st.sampled_from([None, None, None, "direction_major"]))}


def _arr(x):
    return np.asarray(x.values if hasattr(x, "values") else x)


def run(c):
    import xarray
    from ocean_science_utilities.wavespectra.operations import integrate_spectral_data
    from ocean_science_utilities.wavespectra.spectrum import FrequencySpectrum
    sc = c["spec"]
    a = GS.case_arrays(sc)
    f, d, n = a["f"], a["dir"], a["n"]
    nf = len(f)
    shape = tuple(a["shape"])
    E = a["e"]
    spec = GS.build(sc)
    if c.get("dims_order") == "direction_major":
        from ocean_science_utilities.wavespectra.spectrum import FrequencyDirectionSpectrum
        spec = FrequencyDirectionSpectrum(spec.dataset.transpose(..., "direction", "frequency"))
    w = O.dir_steps(d)
    require(abs(w.sum() - 360.0) <= 1e-9 and (w > 0).all(), "generator_sanity", f"steps {w.sum()}")
    got_w = _arr(spec.direction_step).astype(float)
    require(got_w.shape == w.shape and np.allclose(got_w, w, rtol=0, atol=1e-9), "direction_step",
            f"got={got_w[:6]} ref={w[:6]} sum={got_w.sum()!r}")
    require(abs(got_w.sum() - 360.0) <= 1e-9, "bin_widths_sum_to_360", f"sum={got_w.sum()!r}")

    e, ra1, rb1, ra2, rb2 = O.moments_2d(E, d)          # (n, nf)
    abs_e = np.nansum(np.abs(E) * w, axis=-1)
    g_e = _arr(spec.e).astype(float)
    require(g_e.shape == shape + (nf,), "e_shape", f"{g_e.shape}")
    ok = O.close(g_e.reshape(n, nf), e, rel=1e-12, abs_=1e-300, scale=abs_e)
    require(ok.all(), "e_equals_direction_sum", lambda: f"got={g_e.reshape(n, nf)[~ok][:3]!r} ref={e[~ok][:3]!r} "
                                                        f"grid={sc['dir_kind']} roll={sc['roll']}")
    pos = e > 0
    got_m = {}
    for name, ref in (("a1", ra1), ("b1", rb1), ("a2", ra2), ("b2", rb2)):
        g = _arr(getattr(spec, name)).astype(float).reshape(n, nf)
        got_m[name] = g
        ok = O.close(g, ref, rel=0, abs_=1e-11)
        ok = ok | ~pos
        require(ok.all(), f"{name}_equals_weighted_sum", lambda: f"got={g[~ok][:3]!r} ref={ref[~ok][:3]!r}")
        require((np.abs(g[pos]) <= 1 + 1e-12).all(), "moment_magnitude_le_1",
                lambda: f"{name} max={np.abs(g[pos]).max()!r}")
    r2 = got_m["a1"] ** 2 + got_m["b1"] ** 2
    require((r2[pos] <= 1 + 1e-12).all(), "a1sq_plus_b1sq_le_1", lambda: f"max={r2[pos].max()!r}")

    # ---- integrate_spectral_data
    da = spec.variance_density
    gi = _arr(integrate_spectral_data(da, "direction")).astype(float).reshape(n, nf)
    ok = O.close(gi, e, rel=1e-12, abs_=1e-300, scale=abs_e)
    if not np.isnan(E).any():
        require(ok.all(), "integrate_spectral_data_direction", lambda: f"got={gi[~ok][:3]} ref={e[~ok][:3]}")
    Ez = np.nan_to_num(E, nan=0.0)
    tf = O.trapz_terms(f, np.moveaxis(Ez, -2, -1))        # (n, nd, nf-1)
    ref_f = tf.sum(axis=-1)
    gf = _arr(integrate_spectral_data(da, "frequency")).astype(float).reshape(n, len(d))
    ok = O.close(gf, ref_f, rel=1e-12, abs_=1e-300, scale=np.abs(tf).sum(axis=-1))
    require(ok.all(), "integrate_spectral_data_frequency", lambda: f"got={gf[~ok][:3]} ref={ref_f[~ok][:3]}")
    if not np.isnan(E).any():
        ref_fd = (ref_f * w).sum(axis=-1)
        gfd = _arr(integrate_spectral_data(da, ["frequency", "direction"])).astype(float).reshape(n)
        ok = O.close(gfd, ref_fd, rel=1e-11, abs_=1e-300)
        require(ok.all(), "integrate_spectral_data_both", lambda: f"got={gfd[~ok][:3]} ref={ref_fd[~ok][:3]}")

    # ---- 1D reduction
    s1 = spec.as_frequency_spectrum()
    require(isinstance(s1, FrequencySpectrum), "as_frequency_spectrum_type", f"{type(s1)}")
    v1 = _arr(s1.variance_density).astype(float)
    require(v1.shape == shape + (nf,) and O.close(v1.reshape(n, nf), e, rel=1e-12, abs_=1e-300, scale=abs_e).all(),
            "reduction_variance_density_is_e", f"shape={v1.shape}")
    for name in ("a1", "b1", "a2", "b2"):
        g1 = _arr(getattr(s1, name)).astype(float).reshape(n, nf)
        require(O.close(g1, got_m[name], rel=0, abs_=1e-14).all(), "reduction_moments_identical", name)
    for name in ("time", "latitude", "longitude", "depth"):
        x2 = _arr(spec.dataset[name])
        x1 = _arr(s1.dataset[name])
        require(x1.shape == x2.shape and x1.dtype == x2.dtype and x1.tobytes() == x2.tobytes(),
                "reduction_keeps_" + name, f"{x1!r} vs {x2!r}")
    require(list(s1.dims_space_time) == list(spec.dims_space_time), "reduction_keeps_dims",
            f"{s1.dims_space_time} vs {spec.dims_space_time}")
    require(np.array_equal(_arr(s1.frequency), f), "reduction_keeps_frequency", "")
    fmin, fmax = c["fmin"], c["fmax"]
    m0_2d = _arr(spec.m0(fmin, fmax)).astype(float).reshape(n)
    m0_1d = _arr(s1.m0(fmin, fmax)).astype(float).reshape(n)
    require(O.close(m0_1d, m0_2d, rel=1e-12, abs_=1e-300).all(), "total_variance_preserved",
            lambda: f"{m0_1d} vs {m0_2d}")
    ref_m0, ref_abs = O.moment(f, e, 0, fmin, fmax)
    require(O.close(m0_1d, ref_m0, rel=1e-12, abs_=1e-300, scale=ref_abs).all(), "reduced_m0_equals_integral", "")
    mask = O.band_mask(f, fmin, fmax)
    eb = e[:, mask]
    has_energy = mask.any() and bool((np.nan_to_num(eb, nan=0.0).max(axis=-1) > 0).all())
    for name in ("hm0", "tm01", "tm02"):
        x2 = _arr(getattr(spec, name)(fmin, fmax)).astype(float).reshape(n)
        x1 = _arr(getattr(s1, name)(fmin, fmax)).astype(float).reshape(n)
        require(O.close(x1, x2, rel=1e-11, abs_=1e-300).all(), f"bulk_{name}_preserved", lambda: f"{x1} vs {x2}")
    if has_energy:
        pi2 = _arr(spec.peak_index(fmin, fmax)).reshape(n)
        pi1 = _arr(s1.peak_index(fmin, fmax)).reshape(n)
        require((pi1 == pi2).all(), "bulk_peak_index_preserved", f"{pi1} vs {pi2}")
        for name in ("peak_frequency", "peak_period", "peak_directional_spread", "mean_directional_spread"):
            x2 = _arr(getattr(spec, name)(fmin, fmax)).astype(float).reshape(n)
            x1 = _arr(getattr(s1, name)(fmin, fmax)).astype(float).reshape(n)
            require(O.close(x1, x2, rel=1e-10, abs_=1e-9).all(), f"bulk_{name}_preserved", lambda: f"{x1} vs {x2}")
        for name, rname in (("peak_direction", None), ("mean_direction", "mean")):
            x2 = _arr(getattr(spec, name)(fmin, fmax)).astype(float).reshape(n)
            x1 = _arr(getattr(s1, name)(fmin, fmax)).astype(float).reshape(n)
            if rname == "mean":
                R = np.hypot(_arr(spec.mean_a1(fmin, fmax)).astype(float).reshape(n),
                             _arr(spec.mean_b1(fmin, fmax)).astype(float).reshape(n))
            else:
                idx = pi2.astype(int)
                R = np.hypot(got_m["a1"][np.arange(n), idx], got_m["b1"][np.arange(n), idx])
            dd = np.abs(O.wrap180(x1 - x2))
            okd = (dd <= 1e-8) | (np.isnan(x1) & np.isnan(x2)) | ~(R > 1e-6)
            require(okd.all(), f"bulk_{name}_preserved", lambda: f"{x1} vs {x2} R={R}")
    nz_dirs = int((np.nan_to_num(E, nan=0.0).sum(axis=(0, 1)) > 0).sum())
    uniform = sc["dir_kind"] == "uniform"
    classes = ["grid_" + sc["dir_kind"], "layout_" + sc["layout"], "values_" + sc["values"]]
    if sc.get("history"):
        classes.append("object_modified_in_place_after_earlier_queries")
    if sc.get("memory"):
        classes.append("stored_arrays_" + sc["memory"] + "_layout")
    if sc.get("dtype"):
        classes.append("density_stored_as_" + sc["dtype"])
    if sc["roll"]:
        classes.append("rolled")
    if d[0] != 0:
        classes.append("start_not_zero")
    classes.append("labels_" + sc.get("dir_labels", "0_360"))
    if (~pos).any():
        classes.append("has_empty_frequency_row")
    if np.isnan(E).any():
        classes.append("has_nan")
    if c.get("dims_order"):
        classes.append("stored_" + c["dims_order"])
    return {"nontrivial": (not uniform or d[0] != 0) and nz_dirs >= 2, "classes": classes}


# ----------------------------------------------------------------------------- large batches
@st.composite
def large_case(draw):
    """Hundreds to thousands of spectra in one object (a month of buoy records, a model field): the case holds the
    sizes and a seed, the densities are expanded from it (numpy generator seeded by a drawn value)."""
    nd = draw(st.sampled_from([24, 36, 16]))
    return {"n": draw(st.sampled_from([160, 300, 700, 1500])), "nf": draw(st.integers(20, 40)), "nd": nd,
            "t0": draw(st.sampled_from([0.0, 360.0 / nd / 2, 7.0])), "seed": draw(st.integers(0, 2 ** 32 - 1)),
            "nan_fraction": draw(st.sampled_from([0.0, 0.02, 0.1])), "layout": draw(st.sampled_from(["t", "tl"]))}


def run_large(c):
    n, nf, nd = c["n"], c["nf"], c["nd"]
    rng = np.random.default_rng(c["seed"])
    f = 0.03 + 0.01 * np.arange(nf)
    d = c["t0"] + np.arange(nd) * 360.0 / nd
    E = rng.uniform(0.0, 1.0, (n, nf, nd)) * np.exp(-((f[None, :, None] - 0.1) / 0.05) ** 2)
    if c["nan_fraction"]:
        E[rng.uniform(size=E.shape) < c["nan_fraction"]] = np.nan
    t = np.datetime64("2022-01-01T00:00:00") + np.arange(n) * np.timedelta64(1800, "s")
    import xarray
    from ocean_science_utilities.wavespectra.spectrum import FrequencyDirectionSpectrum
    if c["layout"] == "tl" and n % 4 == 0:
        shape = (n // 4, 4)
        lead = ("time", "latitude")
        coords = {"time": t[: n // 4], "latitude": np.arange(4.0), "frequency": f, "direction": d}
        dv = {"longitude": (lead, np.zeros(shape)), "depth": (lead, np.full(shape, np.inf))}
    else:
        shape = (n,)
        lead = ("time",)
        coords = {"time": t, "frequency": f, "direction": d}
        dv = {"latitude": (lead, np.zeros(n)), "longitude": (lead, np.zeros(n)), "depth": (lead, np.full(n, np.inf))}
    dv["variance_density"] = (lead + ("frequency", "direction"), E.reshape(shape + (nf, nd)))
    spec = FrequencyDirectionSpectrum(xarray.Dataset(data_vars=dv, coords=coords))
    w = O.dir_steps(d)
    e, ra1, rb1, ra2, rb2 = O.moments_2d(E, d)
    abs_e = np.nansum(np.abs(E) * w, axis=-1)
    g_e = _arr(spec.e).astype(float)
    require(g_e.shape == shape + (nf,), "e_shape", f"{g_e.shape}")
    ok = O.close(g_e.reshape(n, nf), e, rel=1e-12, abs_=1e-300, scale=abs_e)
    require(ok.all(), "e_equals_direction_sum",
            lambda: f"{n} spectra x {nf} x {nd}: {int((~ok).sum())} rows differ, first at spectrum {int(np.argwhere(~ok)[0][0])}: "
                    f"got={g_e.reshape(n, nf)[~ok][:2]!r} ref={e[~ok][:2]!r}")
    pos = e > 0
    for name, ref in (("a1", ra1), ("b1", rb1), ("a2", ra2), ("b2", rb2)):
        g = _arr(getattr(spec, name)).astype(float).reshape(n, nf)
        ok = O.close(g, ref, rel=0, abs_=1e-11) | ~pos
        require(ok.all(), f"{name}_equals_weighted_sum",
                lambda: f"{n} spectra: first at spectrum {int(np.argwhere(~ok)[0][0])}: got={g[~ok][:2]!r} ref={ref[~ok][:2]!r}")
    s1 = spec.as_frequency_spectrum()
    v1 = _arr(s1.variance_density).astype(float)
    require(v1.shape == shape + (nf,) and O.close(v1.reshape(n, nf), e, rel=1e-12, abs_=1e-300, scale=abs_e).all(),
            "reduction_variance_density_is_e", f"{n} spectra: shape={v1.shape}")
    h2 = _arr(spec.hm0()).astype(float).reshape(-1)
    h1 = _arr(s1.hm0()).astype(float).reshape(-1)
    require(np.allclose(h1, h2, rtol=1e-12, atol=0), "bulk_hm0_preserved", f"{n} spectra")
    classes = [f"spectra_{n}", "rows_" + ("over" if n * nf > 2 ** 20 // (8 * nd) else "under") + "_one_MiB_of_direction_rows"]
    if c["nan_fraction"]:
        classes.append("has_nan")
    return {"nontrivial": True, "classes": classes}


SUBCHECKS = [
    SubCheck("direction_integration", lambda tier: case(), run, {"quick": 400, "thorough": 3000}),
    SubCheck("large_batches", lambda tier: large_case(), run_large, {"quick": 12, "thorough": 60}),
]
