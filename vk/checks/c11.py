"""C11 — wind inversion closes the source-term balance."""
import math

import numpy as np
from hypothesis import strategies as st

from ..gen import windsea as W
from ..gen.common import fl
from ..harness import SubCheck, Violation, require

G = 9.81

META = {
    "level": "exploration",
    "rule": ("generated JONSWAP wind seas whose steepness gives non-zero ST4/ST6 dissipation (and low-steepness seas "
             "with exactly zero dissipation), all directions, finite/infinite depth, batches of 1..4, first guess from "
             "the equilibrium-range estimate (estimate_u10_from_source_terms) or arbitrary guesses in [1,30] m/s "
             "(windspeed_and_direction_from_spectra), st4/st4 and st4/st6 pairs, with and without a rate-of-change "
             "spectrum (+-20 % of the dissipation). Non-trivial = the balance has a root in (2,40) m/s and the estimate "
             "is finite; distinct = sha1 of the case."
             " Cases include pond-scale seas peaked near 1 Hz and seas of marginal steepness (0.012-0.035) whose integrated dissipation is non-zero but below 1e-8 m^2/s (counted)."),
    "assumptions": [
        "in half of the cases the source-term / balance objects have been used before on a spectrum with another grid of the same shape (object reuse); every clause must hold regardless",
        "balance B(U) = sum_{f,theta} S_in(U)*df*dtheta + bulk dissipation - sum_{S_in>0} dE/dt*df*dtheta evaluated through the public classes (implicit roughness); root must be bracketed: B(U-0.05)*B(U+0.05) <= 0 (solver step tolerance 0.01 m/s x5); points where B(U+-0.05) is undefined (NaN roughness) are skipped and counted",
        "reported direction equals Dissipation.mean_direction_degrees (1e-9 deg) and an independent atan2 of the (-S_ds)-weighted wavenumber vector (1e-6 deg in deep water; 0.1 deg at finite depth because the library's wavenumbers carry its 1e-3 solver tolerance)",
        "non-degeneracy (equilibrium-range first guess only, as the property states): B(U_lo) < 0 < B(40) for some defined U_lo in {2,5,10} implies a finite estimate",
        "differential against the pure-python twin of the jitted point solver within 0.02 m/s (skipped if that internal entry point is not available)",
    ],
}


@st.composite
def case(draw):
    zero = draw(st.integers(0, 5)) == 0
    steep = (0.004, 0.012) if zero else (0.035, 0.09)
    marginal = (not zero) and draw(st.integers(0, 7)) == 0
    if marginal:
        # seas only just above the breaking threshold: integrated dissipation non-zero but orders of magnitude smaller
        steep = (0.012, 0.035)
    c = draw(W.sea_case(max_points=4, kinds=("jonswap", "jonswap", "pm"), min_nf=14, max_nf=26, steep=steep,
                        nds=(16, 24, 36)))
    if not zero and draw(st.integers(0, 3)) == 0:
        # young, fetch-limited wind seas peaked above 0.5 Hz on a grid that resolves them
        c["fmax"] = draw(fl(1.5, 2.0))
        c["nf"] = max(c["nf"], 22)
        for p in c["points"]:
            p["fp"] = draw(fl(0.52, 0.8))
            p["hs"] = float(draw(fl(0.04, 0.08)) * W.G / (2 * math.pi * p["fp"] ** 2))
        c["young_sea"] = True
    elif not zero and draw(st.integers(0, 4)) == 0:
        # pond / wave-tank scale wind seas (centimetres high, peaked near 1 Hz): steep, hence dissipating, but with an
        # integrated dissipation of 1e-9..1e-8 m^2/s in absolute terms
        c["fmax"] = draw(fl(3.0, 4.0))
        c["nf"] = max(c["nf"], 24)
        for p in c["points"]:
            p["fp"] = draw(fl(0.9, 1.4))
            p["hs"] = float(draw(fl(0.04, 0.08)) * W.G / (2 * math.pi * p["fp"] ** 2))
        c["pond_scale_sea"] = True
    if marginal:
        c["marginal_steepness"] = True
    c.update({"dissipation": draw(st.sampled_from(["st4", "st4", "st6"])),
              "guess": draw(st.sampled_from(["equilibrium", "equilibrium", "arbitrary"])),
              "guess_u10": [draw(fl(1.0, 30.0)) for _ in c["points"]],
              "dedt_fraction": draw(st.sampled_from([0.0, 0.0, 0.2, -0.2])),
              "dedt_opposing": draw(st.booleans()),
              "twin": draw(st.integers(0, 3)) == 0,
              "reuse_terms": draw(st.booleans())})
    return c


def run(c):
    from ocean_science_utilities.wavephysics.balance import wind_inversion as WI
    from ocean_science_utilities.wavephysics.balance.factory import create_balance
    from ocean_science_utilities.wavephysics.windestimate import estimate_u10_from_source_terms
    bal = create_balance("st4", c["dissipation"])
    gen, dis = bal.generation, bal.dissipation
    if c.get("reuse_terms"):
        W.prime_terms(c, gen, dis, balance=bal)
    f, d = W.axes(c)
    df, dd = W.steps(c)
    E = W.densities(c)
    n = E.shape[0]
    spec = W.build(c, E)
    Dr = np.asarray(dis.rate(spec).values)
    Bd = np.asarray(dis.bulk_rate(spec).values)
    dE = None
    dspec = None
    if c["dedt_fraction"]:
        dE = -Dr * c["dedt_fraction"]           # a fraction of the dissipation magnitude, same support
        if c.get("dedt_opposing"):
            # plus an equally large part travelling the opposite way: outside the actively forced bins it must not count
            dE = dE + np.roll(dE, c["nd"] // 2, axis=-1)
        dspec = W.build(c, dE)
    if c["guess"] == "equilibrium":
        res = estimate_u10_from_source_terms(spec, bal, time_derivative_spectrum=dspec)
    else:
        res = WI.windspeed_and_direction_from_spectra(bal, W.da(c["guess_u10"], spec), spec,
                                                      time_derivative_spectrum=dspec)
    U = np.asarray(res["u10"].values, dtype=float)
    Dir = np.asarray(res["direction"].values, dtype=float)
    require(U.shape == (n,) and Dir.shape == (n,), "output_shape", f"{U.shape}")
    classes = ["dissipation_" + c["dissipation"], "guess_" + c["guess"]]
    if c.get("reuse_terms"):
        classes.append("balance_used_before_on_another_grid_of_the_same_shape")
    if c.get("young_sea"):
        classes.append("young_sea_peaked_above_0.5Hz")
    if c.get("pond_scale_sea"):
        classes.append("pond_scale_sea_peaked_near_1Hz")
    if c.get("marginal_steepness"):
        classes.append("marginal_steepness_0.012_0.035")
    for b in Bd:
        if 0 < -b < 1e-8:
            classes.append("integrated_dissipation_nonzero_below_1e-8")
    if dspec is not None:
        classes.append("with_rate_of_change" + ("_partly_outside_the_forced_bins" if c.get("dedt_opposing") else ""))

    md = np.asarray(dis.mean_direction_degrees(spec).values, dtype=float)
    nontriv = False
    skipped = 0
    excluded = {}
    # batch of probe winds per point: U-0.05, U+0.05, 2, 40
    probes = []
    owner = []
    for i in range(n):
        if Bd[i] == 0.0:
            require(U[i] == 0.0, "zero_dissipation_gives_zero_wind", f"point {i}: bulk dissipation 0 but u10={U[i]!r}")
            classes.append("zero_dissipation")
            continue
        require(math.isnan(U[i]) or U[i] > 0, "estimate_missing_or_positive", f"point {i}: u10={U[i]!r}")
        wd = float(Dir[i]) if math.isfinite(Dir[i]) else float(md[i])
        us = [U[i] - 0.05, U[i] + 0.05] if math.isfinite(U[i]) else [1.0, 1.0]
        for u in us + [2.0, 5.0, 10.0, 40.0]:
            probes.append((i, max(u, 1e-3), wd))
    if probes:
        idx = [p[0] for p in probes]
        sb = W.build(c, E[idx], [c["depth"][i] for i in idx])
        R = np.asarray(gen.rate(sb, W.da([p[1] for p in probes], sb), W.da([p[2] for p in probes], sb)).values)
        Bin = (R * df[None, :, None] * dd[None, None, :]).sum(axis=(1, 2))
        if dE is not None:
            act = (np.where(R > 0, dE[idx], 0.0) * df[None, :, None] * dd[None, None, :]).sum(axis=(1, 2))
        else:
            act = 0.0
        B = Bin + Bd[idx] - act
        for j in range(0, len(probes), 6):
            i = probes[j][0]
            b_lo, b_hi, b2, b5, b10, b40 = B[j:j + 6]
            if math.isfinite(U[i]):
                if not (math.isfinite(b_lo) and math.isfinite(b_hi)):
                    skipped += 1
                else:
                    # known finding F28: with a supplied rate of change the balance is a discontinuous function of U (bins
                    # enter the "actively forced" set one by one); the solver's finite-difference derivative across such a
                    # jump is huge, the Newton step tiny, and it can stop next to a jump at which the balance does NOT
                    # change sign. Such stops (same sign on both sides, residual below 3 % of the dissipation) are counted,
                    # not reported - except for the documented input, which carries the match of the known entry.
                    jump_stop = (dE is not None and b_lo * b_hi > 0 and
                                 max(abs(b_lo), abs(b_hi)) <= 0.03 * abs(Bd[i]))
                    if jump_stop and not c.get("document_f28"):
                        excluded["stopped_at_a_jump_of_the_rate_of_change_term"] = \
                            excluded.get("stopped_at_a_jump_of_the_rate_of_change_term", 0) + 1
                    elif b_lo * b_hi > 0:
                        raise Violation("estimated_wind_closes_the_balance",
                                        f"point {i}: u10={U[i]!r} dir={Dir[i]!r} B(U-0.05)={b_lo!r} B(U+0.05)={b_hi!r} "
                                        f"bulk dissipation={Bd[i]!r}",
                                        match={"solver_stopped_at_rate_of_change_jump": bool(jump_stop and c.get("document_f28"))})
                    if 2 < U[i] < 40:
                        nontriv = True
            lows = [b for b in (b2, b5, b10) if math.isfinite(b)]
            if lows and math.isfinite(b40) and min(lows) < 0 < b40:
                classes.append("root_in_2_40")
            # non-degeneracy is stated for first guesses from the equilibrium-range estimate
            # ... and for seas steep enough for a non-negligible dissipation (the property's quantifier): the low-steepness
            # cases of the generator exist for the zero-dissipation clause only
            steepness = c["points"][i]["hs"] * 2 * math.pi * c["points"][i]["fp"] ** 2 / G
            if lows and math.isfinite(b40) and min(lows) < 0 < b40 and c["guess"] == "equilibrium" and steepness >= 0.03:
                require(math.isfinite(U[i]), "estimate_not_degenerate",
                        f"point {i}: the balance changes sign between 2 and 40 m/s (B(2,5,10)={b2!r},{b5!r},{b10!r}; "
                        f"B(40)={b40!r}) but u10 is NaN")
    # direction
    for i in range(n):
        if Bd[i] == 0.0:
            continue
        require(abs(((Dir[i] - md[i] + 180) % 360) - 180) <= 1e-9, "direction_is_dissipation_weighted_mean_direction",
                f"point {i}: {Dir[i]!r} vs {md[i]!r}")
        dep = c["depth"][i]
        w = 2 * math.pi * f
        if math.isinf(dep):
            k = w ** 2 / G
            tol = 1e-6
        else:
            k = w ** 2 / G
            for _ in range(60):
                k = k - (G * k * np.tanh(k * dep) - w ** 2) / (G * np.tanh(k * dep) + G * k * dep / np.cosh(k * dep) ** 2)
            tol = 0.1
        wgt = -Dr[i] * df[:, None] * dd[None, :] * k[:, None]
        kx = (wgt * np.cos(np.radians(d))[None, :]).sum()
        ky = (wgt * np.sin(np.radians(d))[None, :]).sum()
        ref = math.degrees(math.atan2(ky, kx)) % 360.0
        require(abs(((Dir[i] - ref + 180) % 360) - 180) <= tol, "direction_is_atan2_of_dissipation_weighted_wavenumber",
                f"point {i}: reported {Dir[i]!r} independent {ref!r} depth={dep}")
    # differential against the pure-python twin of the point solver
    if c["twin"] and hasattr(WI, "_u10_from_bulk_rate_point") and hasattr(WI._u10_from_bulk_rate_point, "py_func"):
        i = 0
        if Bd[i] != 0.0:
            guess = float(res["u10"].values[i]) if False else None
            from ocean_science_utilities.wavephysics.windestimate import estimate_u10_from_spectrum
            g0 = (float(estimate_u10_from_spectrum(spec, "peak")["u10"].values[i]) if c["guess"] == "equilibrium"
                  else float(c["guess_u10"][i]))
            tds = dE[i] if dE is not None else np.zeros_like(E[i])
            tw, _ = WI._u10_from_bulk_rate_point.py_func(
                -float(Bd[i]), E[i].copy(), g0, float(md[i]), float(c["depth"][i]), gen.spectral_grid(spec),
                gen.parameters, gen._wind_source_term_function, gen._tail_stress_parametrization_function,
                np.ascontiguousarray(tds), False)
            same = (math.isnan(tw) and math.isnan(U[i])) or abs(tw - U[i]) <= 0.02
            require(same, "jitted_solver_agrees_with_python_twin", f"point {i}: jitted {U[i]!r} python {tw!r}")
            classes.append("twin_compared")
    if any(math.isfinite(x) for x in c["depth"]):
        classes.append("finite_depth")
    if np.isnan(U).any():
        classes.append("estimate_nan")
    return {"nontrivial": nontriv, "classes": sorted(set(classes)), "excluded": dict(excluded, balance_probe_undefined=skipped)}


def fixed_cases():
    base = {"nf": 20, "nd": 24, "fkind": "geometric", "f0": 0.04, "t0": 0.0,
            "points": [{"kind": "jonswap", "hs": 3.0, "fp": 0.1, "gamma": 3.3, "theta": 40.0, "power": 5},
                       {"kind": "jonswap", "hs": 1.0, "fp": 0.2, "gamma": 2.0, "theta": 200.0, "power": 2}],
            "depth": [float("inf"), 30.0], "u10": [12.0, 8.0], "wdir": [40.0, 190.0], "dissipation": "st4",
            "guess": "equilibrium", "guess_u10": [10.0, 10.0], "dedt_fraction": 0.0, "twin": True}
    return [base, dict(base, dissipation="st6", guess="arbitrary", dedt_fraction=0.2, twin=False),
            dict(base, dedt_fraction=0.2, dedt_opposing=True, twin=False)]


SUBCHECKS = [
    SubCheck("inversion", lambda tier: case(), run, {"quick": 30, "thorough": 250}, fixed=fixed_cases),
]


def warmup():
    for c in fixed_cases():
        run(dict(c, twin=False))
