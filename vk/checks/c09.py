"""C09 — source terms, roughness and stress are invariant under joint rotation / mirroring."""
import math

import numpy as np
from hypothesis import strategies as st

from ..gen import windsea as W
from ..gen.common import fl
from ..harness import SubCheck, Violation, require
from .c08 import DIS_PARAMS, GEN_DEFAULTS, make_terms

META = {
    "level": "exploration",
    "rule": ("every C08-style batch (1..3 points; JONSWAP/PM/swell+sea/sea with an oblique high-frequency chop/random) on uniform direction grids with "
             "N in {16,24,36} that are closed under negation (start 0 or half a bin), rotated by k bins (k in 0..N-1) "
             "and/or mirrored together with the wind direction; ST4 input + WAM tail stress, ST4 and ST6 dissipation, "
             "default and perturbed parameters. Non-trivial = k != 0 or mirror, the sea is not isotropic and the wind "
             "is not aligned with a grid direction; distinct = sha1 of the case."
             " Sea kinds include two steep opposing wind seas 150-210 degrees apart; a fifth of the cases are square (nf == nd)."),
    "assumptions": [
        "in half of the cases the source-term / balance objects have been used before on a spectrum with another grid of the same shape (object reuse); every clause must hold regardless",
        "explicit roughness: spectral fields compared bin-for-bin after the roll/flip at 1e-10 relative to the field maximum; bulk rates 1e-10 relative",
        "implicit path: roughness 1e-5 relative (solver tolerance 1e-6 in log z0), stress magnitude 1e-4 relative, stress direction 1e-2 degree, dissipation-weighted direction and estimated wind direction 1e-6 degree (+1e-9/R), U10 within 0.03 m/s (solver step tolerance 0.01 m/s)",
        "a quantity that is NaN before the transformation must be NaN after it and vice versa; exception (known finding F25): points of the unphysical 'random' kind, whose roughness solve is round-off dependent - counted as random_spectrum_undefined_in_one_orientation",
        "with direction_iteration=True the iteration stops once two successive directions agree within 1 degree, so the rotated estimate is compared at 1.5 degree and 0.05 m/s; this comparison is made for the generated k and, as one batch, for every rotation k in 0..N-1 of every point (mirrored when the case is), so that the first-guess and the stress direction straddle the 0/360 seam in some member",
    ],
}


@st.composite
def case(draw):
    dk = draw(st.sampled_from(["st4", "st4", "st6"]))
    steep = draw(st.sampled_from([(0.03, 0.09), (0.03, 0.09), None]))
    c = draw(W.sea_case(max_points=3, kinds=("jonswap", "jonswap", "pm", "swell_sea", "cross_chop", "opposing_seas", "random"), max_nf=20, steep=steep,
                        t0_choices=("zero", "half")))
    n = len(c["points"])
    # wind mostly off the grid directions (aligned winds are the trivial case of this relation)
    c["wdir"] = [draw(st.sampled_from([0.0, 90.0, 180.0, 270.0])) if draw(st.integers(0, 5)) == 0 else draw(fl(0.0, 360.0))
                 for _ in range(n)]
    c.update({
        "dissipation": dk,
        "log_z0": [draw(fl(-12.0, -3.0)) for _ in range(n)],
        "k": draw(st.one_of(st.integers(0, c["nd"] - 1), st.integers(1, c["nd"] - 1), st.sampled_from([1, c["nd"] - 1, c["nd"] // 2]))),
        "mirror": draw(st.booleans()),
        "gen_params": {k: draw(fl(0.5, 1.5)) for k in GEN_DEFAULTS} if draw(st.integers(0, 2)) == 0 else {},
        "dis_params": {k: draw(fl(0.5, 1.5)) for k in DIS_PARAMS[dk]} if draw(st.integers(0, 3)) == 0 else {},
        "viscous": draw(st.sampled_from([0.0, 0.0, 0.1])),
        "invert": draw(st.integers(0, 2)) == 0,
        "direction_iteration": draw(st.booleans()),
        "reuse_terms": draw(st.booleans()),
    })
    if c["direction_iteration"] and draw(st.booleans()):
        c["invert"] = True
    return c


def transform_fields(X, k, mirror, t0_is_zero):
    nd = X.shape[-1]
    if mirror:
        idx = (-np.arange(nd)) % nd if t0_is_zero else nd - 1 - np.arange(nd)
        X = X[..., idx]
    return np.roll(X, k, axis=-1)


def wdiff(a, b):
    return np.abs((np.asarray(a, dtype=float) - np.asarray(b, dtype=float) + 180.0) % 360.0 - 180.0)


def same_nan(a, b, what, exempt=None, counter=None, match=None):
    """A quantity that is NaN before the transformation must be NaN after it. Points of the unphysical
    'random' kind are exempt (known finding F25: for white-noise spectra of several metres the roughness
    solver wanders for > 100 evaluations and whether it converges depends on round-off); they are counted."""
    bad = np.isnan(a) != np.isnan(b)
    if exempt is not None:
        if counter is not None and (bad & exempt).any():
            counter["random_spectrum_undefined_in_one_orientation"] = counter.get("random_spectrum_undefined_in_one_orientation", 0) + int((bad & exempt).sum())
        bad = bad & ~exempt
    if bad.any():
        raise Violation(what + "_defined_consistently", f"{a} vs {b}", match=match)
    return ~np.isnan(a) & ~np.isnan(b)


def run(c):
    from ocean_science_utilities.wavephysics.balance.balance import SourceTermBalance
    from ocean_science_utilities.wavephysics.windestimate import estimate_u10_from_source_terms
    gen, dis, fac = make_terms(c)
    if c.get("reuse_terms"):
        W.prime_terms(c, gen, dis)
    f, d = W.axes(c)
    nd = c["nd"]
    delta = 360.0 / nd
    k, mirror = c["k"], c["mirror"]
    sign = -1.0 if mirror else 1.0
    E = W.densities(c)
    n = E.shape[0]
    t0_zero = c["t0"] == 0.0
    E2 = transform_fields(E, k, mirror, t0_zero)
    wd1 = np.array(c["wdir"], dtype=float)
    wd2 = (sign * wd1 + k * delta) % 360.0
    s1 = W.build(c, E)
    s2 = W.build(c, E2)
    u = W.da(c["u10"], s1)
    z0 = W.da(np.exp(c["log_z0"]), s1)
    a1, a2 = W.da(wd1, s1), W.da(wd2, s2)
    what = f"k={k} mirror={mirror} N={nd} dissipation={c['dissipation']}"
    excluded = {}
    exempt = np.array([p["kind"] == "random" for p in c["points"]]) & (not c.get("document_f25"))
    f25 = {"roughness_solver_round_off_dependent_for_white_noise_spectrum": bool(c.get("document_f25"))}

    def fields_equal(name, X1, X2):
        ref = transform_fields(X1, k, mirror, t0_zero)
        sc = max(float(np.abs(ref).max()), 1e-300)
        err = float(np.abs(X2 - ref).max())
        require(err <= 1e-10 * sc, name, f"{what}: max diff {err / sc:.3e} relative to the field maximum")

    R1 = np.asarray(gen.rate(s1, u, a1, roughness_length=z0).values)
    R2 = np.asarray(gen.rate(s2, u, a2, roughness_length=z0).values)
    fields_equal("wind_input_field_rotates_with_sea_and_wind", R1, R2)
    D1 = np.asarray(dis.rate(s1).values)
    D2 = np.asarray(dis.rate(s2).values)
    fields_equal("dissipation_field_rotates_with_sea", D1, D2)
    for name, b1, b2 in (("bulk_input", gen.bulk_rate(s1, u, a1, roughness_length=z0), gen.bulk_rate(s2, u, a2, roughness_length=z0)),
                         ("bulk_dissipation", dis.bulk_rate(s1), dis.bulk_rate(s2))):
        b1, b2 = np.asarray(b1.values), np.asarray(b2.values)
        require((np.abs(b1 - b2) <= 1e-10 * np.abs(b1) + 1e-300).all(), name + "_invariant", f"{what}: {b1} vs {b2}")

    # implicit path
    r1 = np.asarray(gen.roughness(u, a1, s1).values)
    r2 = np.asarray(gen.roughness(u, a2, s2).values)
    ok = same_nan(r1, r2, "roughness", exempt, excluded, f25)
    require((np.abs(r1 - r2)[ok] <= 1e-5 * r1[ok]).all(), "roughness_invariant", f"{what}: {r1} vs {r2}")
    st1 = gen.stress(s1, u, a1)
    st2 = gen.stress(s2, u, a2)
    m1, m2 = np.asarray(st1["stress"].values), np.asarray(st2["stress"].values)
    ok = same_nan(m1, m2, "stress", exempt, excluded, f25)
    require((np.abs(m1 - m2)[ok] <= 1e-4 * m1[ok]).all(), "stress_magnitude_invariant", f"{what}: {m1} vs {m2}")
    p1, p2 = np.asarray(st1["direction"].values), np.asarray(st2["direction"].values)
    okd = ok & ~np.isnan(p1) & ~np.isnan(p2)
    require((wdiff(p2, sign * p1 + k * delta)[okd] <= 1e-2).all(), "stress_direction_rotates",
            f"{what}: {p1} -> {p2}")
    q1 = np.asarray(dis.mean_direction_degrees(s1).values)
    q2 = np.asarray(dis.mean_direction_degrees(s2).values)
    bd = np.asarray(dis.bulk_rate(s1).values)
    active = bd < 0
    require((wdiff(q2, sign * q1 + k * delta)[active] <= 1e-6).all(), "dissipation_weighted_direction_rotates",
            f"{what}: {q1} -> {q2}")
    classes = ["dissipation_" + c["dissipation"], f"nd{nd}", "mirror" if mirror else "rotate"]
    if c.get("reuse_terms"):
        classes.append("term_objects_used_before_on_another_grid_of_the_same_shape")
    if c["invert"]:
        bal = SourceTermBalance(gen, dis)
        e1 = estimate_u10_from_source_terms(s1, bal)
        e2 = estimate_u10_from_source_terms(s2, bal)
        u1, u2 = np.asarray(e1["u10"].values), np.asarray(e2["u10"].values)
        ok = same_nan(u1, u2, "estimated_wind_speed", exempt, excluded, f25)
        require((np.abs(u1 - u2)[ok] <= 0.03).all(), "estimated_wind_speed_invariant", f"{what}: {u1} vs {u2}")
        w1, w2 = np.asarray(e1["direction"].values), np.asarray(e2["direction"].values)
        okw = active & ~np.isnan(w1) & ~np.isnan(w2)
        require((wdiff(w2, sign * w1 + k * delta)[okw] <= 1e-6).all(), "estimated_wind_direction_rotates",
                f"{what}: {w1} -> {w2}")
        classes.append("with_wind_inversion")
        if c.get("direction_iteration"):
            # the same invariance with the direction iteration switched on (the direction then follows the stress)
            from ocean_science_utilities.wavephysics.balance.wind_inversion import windspeed_and_direction_from_spectra
            from ocean_science_utilities.wavephysics.windestimate import estimate_u10_from_spectrum
            g1 = estimate_u10_from_spectrum(s1, "peak")["u10"]
            g2 = estimate_u10_from_spectrum(s2, "peak")["u10"]
            d1 = windspeed_and_direction_from_spectra(bal, g1, s1, direction_iteration=True)
            d2 = windspeed_and_direction_from_spectra(bal, g2, s2, direction_iteration=True)
            v1, v2 = np.asarray(d1["u10"].values), np.asarray(d2["u10"].values)
            okv = same_nan(v1, v2, "estimated_wind_speed_with_direction_iteration", exempt, excluded, f25)
            require((np.abs(v1 - v2)[okv] <= 0.05).all(), "estimated_wind_speed_invariant_with_direction_iteration",
                    f"{what}: {v1} vs {v2}")
            x1, x2 = np.asarray(d1["direction"].values), np.asarray(d2["direction"].values)
            okx = okv & active & ~np.isnan(x1) & ~np.isnan(x2)
            # the iteration stops when two successive directions differ by < 1 degree
            require((wdiff(x2, sign * x1 + k * delta)[okx] <= 1.5).all(), "estimated_wind_direction_rotates_with_direction_iteration",
                    f"{what}: {x1} -> {x2}")
            classes.append("with_direction_iteration")
            # every rotation k in 0..N-1 (and its mirror image) of every point, as one batch: somewhere on the way
            # round the circle the first-guess direction and the stress direction lie on either side of the 0/360
            # seam, where the direction update has to wrap
            ks = np.arange(nd)
            allE = np.concatenate([np.stack([transform_fields(E[i], int(kk), mirror, t0_zero) for kk in ks]) for i in range(n)])
            call = dict(c, depth=[dep for dep in c["depth"][:n] for _ in ks])
            sa = W.build(call, allE)
            ga = estimate_u10_from_spectrum(sa, "peak")["u10"]
            da_ = windspeed_and_direction_from_spectra(bal, ga, sa, direction_iteration=True)
            va = np.asarray(da_["u10"].values).reshape(n, nd)
            xa = np.asarray(da_["direction"].values).reshape(n, nd)
            for i in range(n):
                ref_v = np.full(nd, v1[i])
                oka = same_nan(ref_v, va[i], "estimated_wind_speed_with_direction_iteration_every_rotation",
                               np.full(nd, bool(exempt[i])), excluded, f25)
                require((np.abs(va[i] - v1[i])[oka] <= 0.05).all(), "estimated_wind_speed_invariant_with_direction_iteration",
                        lambda: f"point {i}, all rotations, mirror={mirror}: reference {v1[i]} rotated {va[i]}")
                if active[i] and np.isfinite(x1[i]):
                    okb = oka & ~np.isnan(xa[i])
                    require((wdiff(xa[i], sign * x1[i] + ks * delta)[okb] <= 1.5).all(),
                            "estimated_wind_direction_rotates_with_direction_iteration",
                            lambda: f"point {i}, all rotations, mirror={mirror}: reference {x1[i]} rotated minus k*delta "
                                    f"{(xa[i] - ks * delta) % 360}")
            classes.append("every_rotation_batch")
            first_guess_gap = wdiff(x1, q1)
            if np.nanmax(np.where(active, first_guess_gap, 0.0)) > delta:
                classes.append("stress_direction_more_than_a_bin_from_first_guess")
    aligned = all(abs(((w - c["t0"]) / delta) - round((w - c["t0"]) / delta)) < 1e-9 for w in wd1)
    aniso = bool((E.std(axis=-1) > 0).any())
    return {"nontrivial": (k != 0 or mirror) and aniso and not aligned, "classes": classes, "excluded": excluded}


SUBCHECKS = [
    SubCheck("joint_rotation", lambda tier: case(), run, {"quick": 30, "thorough": 250}),
]


def fixed_cases():
    # ST4 dissipation, default 80 degree saturation window, N=36 (window edge exactly on a bin), rotation by one bin
    base = {"nf": 12, "nd": 36, "fkind": "geometric", "f0": 0.05, "t0": 0.0,
            "points": [{"kind": "jonswap", "hs": 4.0, "fp": 0.1, "gamma": 3.3, "theta": 33.0, "power": 2}],
            "depth": [float("inf")], "u10": [15.0], "wdir": [41.0], "dissipation": "st4", "log_z0": [-8.0],
            "gen_params": {}, "dis_params": {}, "viscous": 0.0, "invert": False, "direction_iteration": False}
    bim = dict(base, nf=20, fmax=1.0, points=[{"kind": "cross_chop", "hs": 2.0, "fp": 0.2, "gamma": 3.3, "theta": 53.0, "power": 10,
                                                "hs2": 0.3, "fp2": 0.6, "theta2": 353.0}], u10=[10.0], wdir=[40.0],
               invert=True, direction_iteration=True)
    return [dict(base, k=1, mirror=False), dict(base, k=7, mirror=True), dict(base, k=0, mirror=True),
            dict(bim, k=5, mirror=False), dict(bim, k=11, mirror=True)]


SUBCHECKS[0].fixed = fixed_cases


def warmup():
    c = fixed_cases()[0]
    c = dict(c, nd=16, invert=True)
    run(c)
    run(dict(c, dissipation="st6"))
