"""C09 — source terms, roughness and stress are invariant under joint rotation / mirroring."""
import math

import numpy as np
from hypothesis import strategies as st

from ..gen import windsea as W
from ..gen.common import fl
from ..harness import SubCheck, require
from .c08 import DIS_PARAMS, GEN_DEFAULTS, make_terms

META = {
    "level": "exploration",
    "rule": ("every C08-style batch (1..3 points; JONSWAP/PM/swell+sea/random) on uniform direction grids with "
             "N in {16,24,36} that are closed under negation (start 0 or half a bin), rotated by k bins (k in 0..N-1) "
             "and/or mirrored together with the wind direction; ST4 input + WAM tail stress, ST4 and ST6 dissipation, "
             "default and perturbed parameters. Non-trivial = k != 0 or mirror, the sea is not isotropic and the wind "
             "is not aligned with a grid direction; distinct = sha1 of the case."),
    "assumptions": [
        "explicit roughness: spectral fields compared bin-for-bin after the roll/flip at 1e-10 relative to the field maximum; bulk rates 1e-10 relative",
        "implicit path: roughness 1e-5 relative (solver tolerance 1e-6 in log z0), stress magnitude 1e-4 relative, stress direction 1e-2 degree, dissipation-weighted direction and estimated wind direction 1e-6 degree (+1e-9/R), U10 within 0.03 m/s (solver step tolerance 0.01 m/s)",
        "a quantity that is NaN before the transformation must be NaN after it and vice versa",
    ],
}


@st.composite
def case(draw):
    dk = draw(st.sampled_from(["st4", "st4", "st6"]))
    steep = draw(st.sampled_from([(0.03, 0.09), (0.03, 0.09), None]))
    c = draw(W.sea_case(max_points=3, kinds=("jonswap", "jonswap", "pm", "swell_sea", "random"), max_nf=20, steep=steep,
                        t0_choices=("zero", "half")))
    n = len(c["points"])
    c.update({
        "dissipation": dk,
        "log_z0": [draw(fl(-12.0, -3.0)) for _ in range(n)],
        "k": draw(st.one_of(st.integers(0, c["nd"] - 1), st.sampled_from([1, c["nd"] - 1, c["nd"] // 2]))),
        "mirror": draw(st.booleans()),
        "gen_params": {k: draw(fl(0.5, 1.5)) for k in GEN_DEFAULTS} if draw(st.integers(0, 2)) == 0 else {},
        "dis_params": {k: draw(fl(0.5, 1.5)) for k in DIS_PARAMS[dk]} if draw(st.integers(0, 3)) == 0 else {},
        "viscous": draw(st.sampled_from([0.0, 0.0, 0.1])),
        "invert": draw(st.integers(0, 2)) == 0,
    })
    return c


def transform_fields(X, k, mirror, t0_is_zero):
    nd = X.shape[-1]
    if mirror:
        idx = (-np.arange(nd)) % nd if t0_is_zero else nd - 1 - np.arange(nd)
        X = X[..., idx]
    return np.roll(X, k, axis=-1)


def wdiff(a, b):
    return np.abs((np.asarray(a, dtype=float) - np.asarray(b, dtype=float) + 180.0) % 360.0 - 180.0)


def same_nan(a, b, what):
    require((np.isnan(a) == np.isnan(b)).all(), what + "_defined_consistently", f"{a} vs {b}")
    return ~np.isnan(a)


def run(c):
    from ocean_science_utilities.wavephysics.balance.balance import SourceTermBalance
    from ocean_science_utilities.wavephysics.windestimate import estimate_u10_from_source_terms
    gen, dis, fac = make_terms(c)
    f, d = W.axes(c)
    nd = c["nd"]
    delta = 360.0 / nd
    k, mirror = c["k"], c["mirror"]
    sign = -1.0 if mirror else 1.0
    E = W.densities(c)
    n = E.shape[0]
    t0_zero = c["t0"] == 0.0
    E2 = transform_fields(E, k, mirror, t0_zero)
    wd1 = np.array(c["wdir"], dtype=float)
    wd2 = (sign * wd1 + k * delta) % 360.0
    s1 = W.build(c, E)
    s2 = W.build(c, E2)
    u = W.da(c["u10"], s1)
    z0 = W.da(np.exp(c["log_z0"]), s1)
    a1, a2 = W.da(wd1, s1), W.da(wd2, s2)
    what = f"k={k} mirror={mirror} N={nd} dissipation={c['dissipation']}"

    def fields_equal(name, X1, X2):
        ref = transform_fields(X1, k, mirror, t0_zero)
        sc = max(float(np.abs(ref).max()), 1e-300)
        err = float(np.abs(X2 - ref).max())
        require(err <= 1e-10 * sc, name, f"{what}: max diff {err / sc:.3e} relative to the field maximum")

    R1 = np.asarray(gen.rate(s1, u, a1, roughness_length=z0).values)
    R2 = np.asarray(gen.rate(s2, u, a2, roughness_length=z0).values)
    fields_equal("wind_input_field_rotates_with_sea_and_wind", R1, R2)
    D1 = np.asarray(dis.rate(s1).values)
    D2 = np.asarray(dis.rate(s2).values)
    fields_equal("dissipation_field_rotates_with_sea", D1, D2)
    for name, b1, b2 in (("bulk_input", gen.bulk_rate(s1, u, a1, roughness_length=z0), gen.bulk_rate(s2, u, a2, roughness_length=z0)),
                         ("bulk_dissipation", dis.bulk_rate(s1), dis.bulk_rate(s2))):
        b1, b2 = np.asarray(b1.values), np.asarray(b2.values)
        require((np.abs(b1 - b2) <= 1e-10 * np.abs(b1) + 1e-300).all(), name + "_invariant", f"{what}: {b1} vs {b2}")

    # implicit path
    r1 = np.asarray(gen.roughness(u, a1, s1).values)
    r2 = np.asarray(gen.roughness(u, a2, s2).values)
    ok = same_nan(r1, r2, "roughness")
    require((np.abs(r1 - r2)[ok] <= 1e-5 * r1[ok]).all(), "roughness_invariant", f"{what}: {r1} vs {r2}")
    st1 = gen.stress(s1, u, a1)
    st2 = gen.stress(s2, u, a2)
    m1, m2 = np.asarray(st1["stress"].values), np.asarray(st2["stress"].values)
    ok = same_nan(m1, m2, "stress")
    require((np.abs(m1 - m2)[ok] <= 1e-4 * m1[ok]).all(), "stress_magnitude_invariant", f"{what}: {m1} vs {m2}")
    p1, p2 = np.asarray(st1["direction"].values), np.asarray(st2["direction"].values)
    okd = ok & ~np.isnan(p1) & ~np.isnan(p2)
    require((wdiff(p2, sign * p1 + k * delta)[okd] <= 1e-2).all(), "stress_direction_rotates",
            f"{what}: {p1} -> {p2}")
    q1 = np.asarray(dis.mean_direction_degrees(s1).values)
    q2 = np.asarray(dis.mean_direction_degrees(s2).values)
    bd = np.asarray(dis.bulk_rate(s1).values)
    active = bd < 0
    require((wdiff(q2, sign * q1 + k * delta)[active] <= 1e-6).all(), "dissipation_weighted_direction_rotates",
            f"{what}: {q1} -> {q2}")
    classes = ["dissipation_" + c["dissipation"], f"nd{nd}", "mirror" if mirror else "rotate"]
    if c["invert"]:
        bal = SourceTermBalance(gen, dis)
        e1 = estimate_u10_from_source_terms(s1, bal)
        e2 = estimate_u10_from_source_terms(s2, bal)
        u1, u2 = np.asarray(e1["u10"].values), np.asarray(e2["u10"].values)
        ok = same_nan(u1, u2, "estimated_wind_speed")
        require((np.abs(u1 - u2)[ok] <= 0.03).all(), "estimated_wind_speed_invariant", f"{what}: {u1} vs {u2}")
        w1, w2 = np.asarray(e1["direction"].values), np.asarray(e2["direction"].values)
        okw = active & ~np.isnan(w1) & ~np.isnan(w2)
        require((wdiff(w2, sign * w1 + k * delta)[okw] <= 1e-6).all(), "estimated_wind_direction_rotates",
                f"{what}: {w1} -> {w2}")
        classes.append("with_wind_inversion")
    aligned = all(abs(((w - c["t0"]) / delta) - round((w - c["t0"]) / delta)) < 1e-9 for w in wd1)
    aniso = bool((E.std(axis=-1) > 0).any())
    return {"nontrivial": (k != 0 or mirror) and aniso and not aligned, "classes": classes}


SUBCHECKS = [
    SubCheck("joint_rotation", lambda tier: case(), run, {"quick": 30, "thorough": 250}),
]


def fixed_cases():
    # ST4 dissipation, default 80 degree saturation window, N=36 (window edge exactly on a bin), rotation by one bin
    base = {"nf": 12, "nd": 36, "fkind": "geometric", "f0": 0.05, "t0": 0.0,
            "points": [{"kind": "jonswap", "hs": 4.0, "fp": 0.1, "gamma": 3.3, "theta": 33.0, "power": 2}],
            "depth": [float("inf")], "u10": [15.0], "wdir": [41.0], "dissipation": "st4", "log_z0": [-8.0],
            "gen_params": {}, "dis_params": {}, "viscous": 0.0, "invert": False}
    return [dict(base, k=1, mirror=False), dict(base, k=7, mirror=True), dict(base, k=0, mirror=True)]


SUBCHECKS[0].fixed = fixed_cases


def warmup():
    c = fixed_cases()[0]
    c = dict(c, nd=16, invert=True)
    run(c)
    run(dict(c, dissipation="st6"))
