"""C05 — directional estimators return valid distributions and conserve energy."""
import math

import numpy as np
from hypothesis import strategies as st

from ..gen import moments as GM
from ..gen import spectra as GS
from ..gen.common import fl
from ..harness import SubCheck, Violation, require
from ..oracle import spec as O

VARIANTS = [("mem", None), ("mem2", "newton"), ("mem2", "scipy"), ("mem2", "approximate")]

META = {
    "level": "exploration",
    "rule": ("generated moment quadruples with a1^2+b1^2<1: realisable (1-2 von-Mises lobes plus isotropic "
             "background, kappa 0.05..400, i.e. isotropic to ~3 degrees wide), noisy/unrealisable (a1,b1 in the "
             "disc, a2,b2 uniform in [-1,1]), the five hard cases of the test-suite with rotations/mirrors, "
             "isotropic; N in 8..180 uniform directions (start 0 or arbitrary); batch shapes (), (nf,), (nt,nf), "
             "(nt,nx,nf); all four solver variants; plus 1D->2D->1D round trips of generated spectra. "
             "Non-trivial = resultant R>0.05 (not isotropic); distinct = sha1 of the case."
             " The direction grid is passed reduced to [0,360) (wrapping inside the array for t0>0), monotone from -180, or monotone from 270; round trips also convert the same object again after its densities were replaced in place."
             " A third of the distribution cases follow an earlier call with optional solver settings."),
    "assumptions": [
        "non-negativity slack -1e-15*max(D); normalisation |sum D*dtheta - 1| <= 1e-9 per frequency",
        "batch independence: the batch element equals the one-element call within 1e-9 of the distribution maximum for the closed-form variants (MEM, MEM2 approximate) and within 5e-2 for the iterative ones where they converged (one Newton step at the 0.01 stopping threshold) (fastmath SIMD reductions are alignment dependent at the 1-ulp level, so bit-for-bit equality is not stable across machines) and is not compared where an iterative solver did not converge (unrealisable moments: the 100-iteration path amplifies the last-bit difference between the strided batch slice and the contiguous single array chaotically - 11 % at N=8, then 90 % at N=180 were observed, with identical results for every batch of two or more and for repeated single calls); such cases are counted as batch_comparison_skipped_solver_not_converged",
        "known finding F23: MEM is undefined for moments whose second reflection coefficient (c2-c1^2)/(1-|c1|^2) has modulus exactly 1; generated moments within 1e-6 of that boundary are nudged off it (counted), the documented input is a fixed case",
        "round trip e(f) within 1e-9 relative; metadata byte-identical",
        "a quarter of the cases pass the moments as float32 arrays (single-precision files): normalisation 1e-5, batch independence 1e-5 there",
        "noisy moments are finite and strictly inside the unit disc (radius <= 0.999) as the property states",
    ],
}


def _est():
    from ocean_science_utilities.wavespectra.estimators.estimate import estimate_directional_distribution
    return estimate_directional_distribution


@st.composite
def dist_case(draw):
    shape = draw(st.sampled_from([[], [1], [3], [5], [2, 3], [1, 4], [2, 2, 2]]))
    n = int(np.prod(shape)) if shape else 1
    quads = [draw(GM.quadruple()) for _ in range(n)]
    N = draw(st.one_of(st.sampled_from([8, 24, 36, 72, 180]), st.integers(8, 180)))
    t0 = draw(st.sampled_from([0.0, 0.0, 0.0, 5.0, 123.4]))
    var = draw(st.integers(0, 3))
    return {"shape": shape, "quads": quads, "N": N, "t0": t0, "variant": var,
            "pick": draw(st.integers(0, n - 1)),
            # moments as read from single-precision files
            "moment_dtype": draw(st.sampled_from(["float64", "float64", "float64", "float32"])),
            # memory layout of the moment arrays: C order, Fortran order (transposed model output) or a strided view
            "memory_order": draw(st.sampled_from(["C", "C", "F", "strided"])),
            # labelling of the uniform grid: reduced to [0,360) (wrapping inside the array when t0 > 0), monotone from
            # -180, or monotone from 270 running past 360
            "grid_labels": draw(st.sampled_from(["mod360", "mod360", "mod360", "from_minus_180", "from_270"])),
            # an earlier call of the estimator with optional solver settings (on a broad sea, where they are harmless):
            # settings belong to the call they are passed to
            "prior_solver_config": draw(st.sampled_from([None, None, None, {"use_mem_when_failing_to_converge": False, "atol": 1e-6},
                                                         {"max_iter": 2}, {"atol": 0.3}]))}


def direction_grid(c):
    N = c["N"]
    lab = c.get("grid_labels", "mod360")
    d = c["t0"] + np.arange(N) * 360.0 / N
    if lab == "from_minus_180":
        return d - 180.0
    if lab == "from_270":
        return d + 270.0
    return d % 360.0


def check_distribution(D, N, what, match=None, norm_tol=1e-9):
    if not np.isfinite(D).all():
        raise Violation("distribution_finite", f"{what}: non-finite values", match=match)
    mx = float(np.max(D))
    require(float(np.min(D)) >= -1e-15 * max(mx, 1.0), "distribution_non_negative",
            lambda: f"{what}: min={float(np.min(D))!r}")
    s = D.sum(axis=-1) * (360.0 / N)
    require((np.abs(s - 1) <= norm_tol).all(), "distribution_integrates_to_one",
            lambda: f"{what}: integral={s.ravel()[np.argmax(np.abs(s - 1))]!r}")


def run_dist(c):
    est = _est()
    shape = tuple(c["shape"])
    N = c["N"]
    d = direction_grid(c)
    mdt = c.get("moment_dtype", "float64")
    single = mdt == "float32"
    M = np.array([q["m"] for q in c["quads"]], dtype=mdt).astype(float)      # (n, 4): the values the arrays hold
    if single and (np.hypot(M[:, 0], M[:, 1]) >= 1).any():
        return {"nontrivial": False, "classes": ["rounded_onto_the_unit_circle"]}
    arrs = [M[:, i].reshape(shape).astype(mdt) for i in range(4)]
    order = c.get("memory_order", "C")
    if order == "F" and len(shape) >= 2:
        arrs = [np.asfortranarray(a) for a in arrs]
    elif order == "strided" and len(shape) >= 1:
        arrs = [np.repeat(a, 2, axis=-1)[..., ::2] for a in arrs]      # same values, every second element of a buffer
    method, sm = VARIANTS[c["variant"]]
    kw = {} if sm is None else {"solution_method": sm}
    if c.get("prior_solver_config"):
        broad = [np.array([x]) for x in (0.3, 0.1, 0.05, 0.02)]
        Dp = np.asarray(est(*broad, d, method="mem2", solution_method="newton", solver_config=dict(c["prior_solver_config"])))
        require(Dp.shape == (1, N), "output_shape", f"call with solver_config: {Dp.shape}")
    D = np.asarray(est(*arrs, d, method=method, **kw))
    require(D.shape == shape + (N,), "output_shape", f"{D.shape} vs {shape + (N,)}")
    degenerate = method == "mem" and any(abs(GM.phi2_modulus(q["m"]) - 1.0) < 1e-9 for q in c["quads"])
    check_distribution(D, N, f"method={method}/{sm} N={N} moments={M[~np.isfinite(D.reshape(len(M), -1)).all(axis=1)][:2].tolist()}",
                       match={"mem_reflection_coefficient_modulus_one": bool(degenerate)}, norm_tol=1e-5 if single else 1e-9)
    # batch independence: element `pick` alone
    j = c["pick"]
    one = [np.array([M[j, i]], dtype=mdt) for i in range(4)]
    D1 = np.asarray(est(*one, d, method=method, **kw))
    Dj = D.reshape(-1, N)[j]
    # not bit-for-bit: the jitted kernels use fastmath SIMD reductions whose summation order depends on
    # the run-time alignment of the arrays (1-ulp differences were observed on a fresh machine)
    thj = np.radians(d)
    mj = np.array([(Dj * fn(k * thj)).sum() * 360.0 / N for fn, k in ((np.cos, 1), (np.sin, 1), (np.cos, 2), (np.sin, 2))])
    converged = float(np.linalg.norm(mj - M[j])) <= 0.0101 or method == "mem" or sm == "approximate"
    # where an iterative solver did not converge (unrealisable moments) its 100-iteration path amplifies
    # last-bit differences of the (vectorised vs scalar) initial guess; the result is then only compared loosely
    # closed-form variants: rounding level. Iterative variants stop when the moment residual drops below 0.01: a
    # last-bit difference between the strided batch slice and the contiguous single array can move that decision
    # by one Newton step (1.8e-5 of the maximum was observed), so they are compared at the level of the stopping rule
    iterative = method == "mem2" and sm in ("newton", "scipy")
    btol = 5e-2 if iterative else (1e-5 if single else 1e-9)
    require(D1.shape == (1, N), "output_shape", f"single call: {D1.shape}")
    skipped = 0 if converged else 1
    require(not converged or np.abs(D1[0] - Dj).max() <= btol * max(float(np.abs(Dj).max()), 1e-300),
            "batch_element_equals_single_call",
            lambda: f"method={method}/{sm} max diff={np.abs(D1[0] - Dj).max()!r} moments={M[j].tolist()}")
    R = np.hypot(M[:, 0], M[:, 1])
    classes = [f"variant_{method}_{sm}", f"shape_{len(shape)}d"] + sorted({"kind_" + q["kind"] for q in c["quads"]})
    if single:
        classes.append("float32_moments")
    if c.get("prior_solver_config"):
        classes.append("after_a_call_with_optional_solver_settings")
    classes.append("grid_labels_" + c.get("grid_labels", "mod360") + ("_wrapping_inside_array" if c["t0"] > 0 and c.get("grid_labels", "mod360") == "mod360" else ""))
    if order != "C" and len(shape) >= 2:
        classes.append("moments_" + order + "_layout_2plus_leading_dims")
    nudged = sum(1 for q in c["quads"] if q.get("nudged_off_degenerate_boundary"))
    if any(not GM.realisable(q["m"]) for q in c["quads"]):
        classes.append("unrealisable_moments")
    spread = np.degrees(np.sqrt(2 * (1 - R)))
    if (spread < 10).any():
        classes.append("narrow_lt_10deg")
    return {"nontrivial": bool((R > 0.05).any()), "classes": classes,
            "excluded": {"moments_nudged_off_mem_degenerate_boundary": nudged,
                         "batch_comparison_skipped_solver_not_converged": skipped}}


def fixed_dist():
    out = [
        # known finding F23 (MEM only): second moments of modulus exactly one with a1=b1=0
        {"shape": [1], "quads": [{"kind": "noisy", "m": [0.0, 0.0, 0.0, 1.0]}], "N": 8, "t0": 0.0, "variant": 0, "pick": 0},
    ]
    for v in range(4):
        for h in GM.HARD:
            out.append({"shape": [1], "quads": [{"kind": "hard", "m": list(h)}], "N": 36, "t0": 0.0,
                        "variant": v, "pick": 0})
        out.append({"shape": [], "quads": [{"kind": "vm1", "m": [0.5, 0.2, 0.1, 0.05]}], "N": 24, "t0": 0.0,
                    "variant": v, "pick": 0})
        # the narrow end of the stated domain ("a few degrees wide"): von-Mises kappa 100 and 400 (5.7 and 2.9 degrees)
        for kappa, N in ((100.0, 72), (400.0, 180), (400.0, 36)):
            out.append({"shape": [2], "quads": [{"kind": "vm1", "m": list(GM.mixture_moments([(1.0, 0.7, kappa)], 0.0))},
                                                {"kind": "vm1", "m": list(GM.mixture_moments([(1.0, -2.4, kappa)], 0.0))}],
                        "N": N, "t0": 0.0, "variant": v, "pick": 1})
        # finding F3 reproduction
        out.append({"shape": [1], "quads": [{"kind": "noisy", "m": [-0.675842693529585, -0.19738793422816,
                                                                  -0.07264996421001135, -0.0672019861326203]}],
                    "N": 36, "t0": 0.0, "variant": v, "pick": 0})
    return out


# ----------------------------------------------------------------------------- round trip through spectra
@st.composite
def roundtrip_case(draw):
    s = draw(GS.spec1d_case(kinds=["smooth", "random", "sparse"], max_nf=8, max_len=3, moments="any"))
    n = (int(np.prod(s["shape"])) if s["shape"] else 1) * len(s["f"])
    quads = [draw(GM.quadruple(kinds=("vm1", "vm2", "noisy", "isotropic"))) for _ in range(n)]
    for i, name in enumerate(("a1", "b1", "a2", "b2")):
        s[name] = [q["m"][i] for q in quads]
    s["moment_kind"] = "estimator"
    return {"spec": s, "N": draw(st.one_of(st.sampled_from([8, 12, 24, 36, 60]), st.integers(8, 180))),
            "variant": draw(st.integers(0, 3)),
            # the same object converted again after its densities were replaced in place
            "reconvert_after": draw(st.sampled_from([None, "multiply_inplace", "setitem", "dataset_assignment"]))}


def run_roundtrip(c):
    from ocean_science_utilities.wavespectra.spectrum import FrequencyDirectionSpectrum
    sc = c["spec"]
    a = GS.case_arrays(sc)
    spec = GS.build(sc)
    method, sm = VARIANTS[c["variant"]]
    N = c["N"]
    kw = {"method": method}
    if sm is not None:
        kw["solution_method"] = sm
    s2 = spec.as_frequency_direction_spectrum(N, **kw)
    require(isinstance(s2, FrequencyDirectionSpectrum), "returns_2d_spectrum", f"{type(s2)}")
    shape = tuple(a["shape"])
    nf = len(a["f"])
    E = np.asarray(s2.variance_density.values, dtype=float)
    require(E.shape == shape + (nf, N), "output_shape", f"{E.shape}")
    d = np.asarray(s2.direction.values, dtype=float)
    require(np.allclose(d, np.arange(N) * 360.0 / N, atol=1e-12), "direction_grid", f"{d[:3]}")
    e_back = np.asarray(s2.e.values, dtype=float).reshape(a["n"], nf)
    e_ind = O.e_of_2d(E.reshape(a["n"], nf, N), d)
    e0 = a["e"]
    ok = O.close(e_back, e0, rel=1e-9, abs_=1e-300) & O.close(e_ind, e0, rel=1e-9, abs_=1e-300)
    require(ok.all(), "roundtrip_preserves_e", lambda: f"method={method}/{sm} got={e_back[~ok][:3]} ref={e0[~ok][:3]}")
    m0a = np.asarray(spec.m0().values, dtype=float).reshape(-1)
    m0b = np.asarray(s2.m0().values, dtype=float).reshape(-1)
    require(O.close(m0b, m0a, rel=1e-9, abs_=1e-300).all(), "roundtrip_preserves_total_variance", f"{m0b} vs {m0a}")
    for name in ("time", "latitude", "longitude", "depth"):
        x1 = np.asarray(spec.dataset[name].values)
        x2 = np.asarray(s2.dataset[name].values)
        require(x1.shape == x2.shape and x1.tobytes() == x2.tobytes(), "roundtrip_keeps_" + name, f"{x1} vs {x2}")
    require(list(s2.dims_space_time) == list(spec.dims_space_time), "roundtrip_keeps_dims", "")
    pos = np.isfinite(e0) & (e0 > 1e-200)      # dividing by subnormal energies is meaningless
    Dn = E.reshape(a["n"], nf, N)[pos] / e0[pos][:, None]
    if Dn.size:
        check_distribution(Dn, N, f"spectrum method={method}/{sm}")
    classes = [f"variant_{method}_{sm}", "layout_" + sc["layout"]]
    mode = c.get("reconvert_after")
    if mode:
        # convert, replace the densities of the SAME object in place through the public API, convert again with the same
        # settings: the second 2D spectrum must integrate back to the current e(f), not to the one converted before
        w = 1.0 + np.arange(nf) % 3                       # 1, 2, 3, 1, ... per frequency
        if mode == "multiply_inplace":
            spec.multiply(w, ["frequency"], inplace=True)
        elif mode == "setitem":
            spec["variance_density"] = spec.variance_density * xarray_like(spec, w)
        else:
            spec.dataset["variance_density"] = spec.dataset["variance_density"] * xarray_like(spec, w)
        s3 = spec.as_frequency_direction_spectrum(N, **kw)
        e3 = np.asarray(s3.e.values, dtype=float).reshape(a["n"], nf)
        e_now = e0 * w[None, :]
        ok3 = O.close(e3, e_now, rel=1e-9, abs_=1e-300)
        require(ok3.all(), "roundtrip_preserves_e",
                lambda: f"second conversion of the same object after {mode}: method={method}/{sm} got={e3[~ok3][:3]} "
                        f"current e={e_now[~ok3][:3]}")
        classes.append("converted_again_after_" + mode)
    return {"nontrivial": bool(pos.any()), "classes": classes}


def xarray_like(spec, w):
    import xarray
    return xarray.DataArray(np.asarray(w, dtype=float), dims=("frequency",), coords={"frequency": spec.frequency.values})


def run_every_n(c):
    """as_frequency_direction_spectrum(N) for EVERY N in 8..180 (the grid is built inside the library):
    exactly N uniformly spaced directions and e(f) conserved."""
    from ocean_science_utilities.wavespectra.spectrum import create_1d_spectrum
    f = np.array([0.1, 0.2, 0.3])
    e = np.array([1.0, 2.0, 0.5])
    th = np.radians([40.0, 200.0, 310.0])
    spec = create_1d_spectrum(f, e, np.datetime64("2022-01-01T00:00:00"), 0.0, 0.0, a1=0.6 * np.cos(th), b1=0.6 * np.sin(th),
                              a2=0.2 * np.cos(2 * th), b2=0.2 * np.sin(2 * th), dims=("frequency",))
    subs = []
    for N in range(8, 181):
        s2 = spec.as_frequency_direction_spectrum(N, method=c["method"])
        d = np.asarray(s2.direction.values, dtype=float)
        require(len(d) == N and np.allclose(d, np.arange(N) * 360.0 / N, atol=1e-9), "direction_grid",
                f"N={N}: got {len(d)} directions, last={d[-1]!r}")
        back = np.asarray(s2.e.values, dtype=float)
        require(np.allclose(back, e, rtol=1e-9), "roundtrip_preserves_e", f"N={N}: {back} vs {e}")
        subs.append((["every_n", c["method"], N], True))
    return {"nontrivial": False, "sub_cases": subs, "class_counts": {"every_n_8_180": len(subs)}}


SUBCHECKS = [
    SubCheck("distribution", lambda tier: dist_case(), run_dist, {"quick": 450, "thorough": 4000},
             fixed=fixed_dist),
    SubCheck("roundtrip", lambda tier: roundtrip_case(), run_roundtrip, {"quick": 120, "thorough": 1000}),
    SubCheck("roundtrip_every_n", None, run_every_n, {"quick": 0, "thorough": 0}, fixed=lambda: [{"method": "mem"}]),
]


def warmup():
    est = _est()
    d = np.linspace(0, 360, 12, endpoint=False)
    a = [np.array([0.3]), np.array([0.1]), np.array([0.05]), np.array([0.02])]
    for method, sm in VARIANTS:
        est(*a, d, method=method, **({} if sm is None else {"solution_method": sm}))
