"""C12 — equilibrium-range wind estimate: closed form and direction conventions."""
import math

import numpy as np
from hypothesis import strategies as st

from ..gen import spectra as GS
from ..gen.common import fl, log_uniform
from ..harness import SubCheck, require

G, NU = 9.81, 1.48e-5

META = {
    "level": "exploration",
    "rule": ("(a) generated 1D spectra whose tail is exactly c*f^-4 from a generated index on (>= number_of_bins grid "
             "points of tail below fmax), random level c and direction in all quadrants, leading dims (time) / "
             "(time,latitude) (and () for the peak method), random pre-tail values below the tail level, NaN bins (peak "
             "method), both methods, both conventions, non-default I / beta / kappa / Charnock / viscous constants and "
             "number_of_bins 5..20; (b) random spectra for the peak-method oracle incl. power != 4; (c) 2D spectra vs "
             "their 1D reduction. Non-trivial = direction not a multiple of 90 degrees; distinct = sha1 of the case."
             " Half of the peak-method cases estimate the same object again after scaling it in place by 3."
             " Waves exactly along an axis (0/90/180/270 degrees) carry moments with exact zeros."),
    "assumptions": [
        "closed form u* = 8 pi^3 E_eq/(4 g I beta), z0 = alpha u*^2/g + c_visc nu/u*, U10 = u*/kappa ln(10/z0), compared at 1e-9 relative",
        "E_eq: peak method = max of E f^p with NaN as 0 at its first arg-max; tail spectra: E_eq = c for both methods",
        "mean method is exercised on batched inputs without NaN bins (a NaN bin makes every window containing it undefined)",
        "direction = atan2(b1,a1) mod 360 at the selected bins, compared modulo 360 at 1e-9 degree; must lie in [0,360)",
    ],
}


def _W():
    from ocean_science_utilities.wavephysics import windestimate
    return windestimate


def closed_form(e_eq, I, beta, kappa, alpha, cvisc, grav=G):
    ust = 8 * math.pi ** 3 * e_eq / (4 * grav * I * beta)
    z0 = alpha * ust ** 2 / grav + (cvisc * NU / ust if ust > 0 else 0.0)
    return ust, z0, ust / kappa * math.log(10.0 / z0)


@st.composite
def params(draw):
    if draw(st.booleans()):
        return {"I": 2.5, "beta": 0.012, "kappa": 0.4, "alpha": 0.012, "cvisc": 0.0}
    return {"I": draw(fl(1.5, 3.5)), "beta": draw(fl(0.006, 0.02)), "kappa": draw(fl(0.35, 0.45)),
            "alpha": draw(fl(0.005, 0.04)), "cvisc": draw(st.sampled_from([0.0, 0.11]))}


# ----------------------------------------------------------------------------- (a) analytic tails
@st.composite
def tail_case(draw):
    method = draw(st.sampled_from(["peak", "mean", "mean"]))
    nb = draw(st.integers(5, 20))
    j0 = draw(st.integers(2, 12))
    extra = draw(st.integers(2, 10))
    nf = j0 + nb + extra + draw(st.integers(1, 6))
    f0 = draw(fl(0.03, 0.08))
    df = draw(fl(0.005, 0.02))
    kind = draw(st.sampled_from(["uniform", "geometric"]))
    if kind == "uniform":
        f = [f0 + i * df for i in range(nf)]
    else:
        r = draw(fl(1.03, 1.1))
        f = [f0 * r ** i for i in range(nf)]
    layouts = ["t", "tl"] if method == "mean" else ["none", "t", "tl"]
    lay = draw(st.sampled_from(layouts))
    shape = {"none": [], "t": [draw(st.integers(1, 4))], "tl": [draw(st.integers(1, 3)), draw(st.integers(1, 3))]}[lay]
    n = int(np.prod(shape)) if shape else 1
    fmax_idx = draw(st.integers(j0 + nb, nf - 1))
    return {"method": method, "nb": nb, "j0": j0, "f": [float(x) for x in f], "layout": lay, "shape": shape,
            "fmax": float(f[fmax_idx]), "c": [draw(log_uniform(1e-6, 3e-4)) for _ in range(n)],
            "theta": [draw(st.one_of(fl(0.0, 360.0), st.sampled_from([0.0, 90.0, 180.0, 270.0, 359.999, 360.0]))) for _ in range(n)],
            # axis-aligned waves either with exact zeros in the moments or with the rounding residue of cos / sin
            # (0.5 sin(2 pi) = -1.2e-16 is what once produced a direction of exactly 360.0, finding F26)
            "exact_axis": draw(st.booleans()),
            "r1": [draw(fl(0.2, 0.95)) for _ in range(n)], "seed": draw(st.integers(0, 2 ** 31)),
            "nan_pre_tail": method == "peak" and draw(st.booleans()),
            "convention": draw(st.sampled_from(["going_to_counter_clockwise_east", "coming_from_clockwise_north"])),
            "params": draw(params()), "scale": draw(st.sampled_from([2.0, 0.5, 3.0])),
            # per member: where its c*f^-4 range starts and how long it is (None: to the end of the grid); outside the
            # range E*f^4 is noise below c, so each member has its own flattest window
            "starts": [draw(st.integers(2, j0)) for _ in range(n)],
            "lengths": [draw(st.one_of(st.none(), st.integers(nb, nb + 3))) for _ in range(n)],
            # a missing observation inside a batch: one member is NaN in every bin (the others must be unaffected)
            "all_nan_member": draw(st.integers(0, n - 1)) if n >= 2 and draw(st.integers(0, 3)) == 0 else None}


def build_tail(c, scale=1.0):
    f = np.array(c["f"])
    nf = len(f)
    shape = tuple(c["shape"])
    n = int(np.prod(shape)) if shape else 1
    rng = np.random.default_rng(c["seed"])
    e = np.empty((n, nf))
    a1 = np.empty((n, nf))
    b1 = np.empty((n, nf))
    for i in range(n):
        tail = c["c"][i] * f ** -4.0
        pre = rng.uniform(0.0, 0.9, nf) * c["c"][i] * f ** -4.0
        start = c["starts"][i] if "starts" in c else c["j0"]
        length = c["lengths"][i] if "lengths" in c else None
        inside = (np.arange(nf) >= start) & (np.arange(nf) < (nf if length is None else start + length))
        e[i] = np.where(inside, tail, pre)
        th = math.radians(c["theta"][i])
        ang = np.where(inside, th, rng.uniform(-np.pi, np.pi, nf))
        a1[i] = c["r1"][i] * np.cos(ang)
        b1[i] = c["r1"][i] * np.sin(ang)
        if c.get("exact_axis") and c["theta"][i] % 90.0 == 0.0:
            # waves exactly along an axis: the moments hold exact zeros (a1 == 0 for 90 / 270 degrees), so the direction
            # is exactly a multiple of 90 and the conventions are exercised on their branch points
            ex = {0.0: (1.0, 0.0), 90.0: (0.0, 1.0), 180.0: (-1.0, 0.0), 270.0: (0.0, -1.0)}[c["theta"][i] % 360.0]
            a1[i] = np.where(inside, c["r1"][i] * ex[0], a1[i])
            b1[i] = np.where(inside, c["r1"][i] * ex[1], b1[i])
        if c["nan_pre_tail"] and start > 1:
            e[i, rng.integers(0, start)] = np.nan
        if c.get("all_nan_member") == i:
            e[i, :] = np.nan
    sc = {"kind": "1d", "f": c["f"], "layout": c["layout"], "shape": list(shape), "values": "tail",
          "moment_kind": "tail", "e": (e * scale).reshape(-1).tolist(), "a1": a1.reshape(-1).tolist(),
          "b1": b1.reshape(-1).tolist(), "a2": np.zeros(n * nf).tolist(), "b2": np.zeros(n * nf).tolist(),
          "depth": [float("inf")] * n, "time": [GS.T2000 + 3600 * i for i in range(max(shape[0], 1) if shape else 1)],
          "lat": [10.0 + i for i in range(n if c["layout"] != "tl" else shape[1])],
          "lon": [20.0 + i for i in range(n)]}
    return GS.build(sc)


def call(spec, c, method, convention=None, **over):
    WE = _W()
    p = c["params"]
    return WE.estimate_u10_from_spectrum(
        spec, method=method, fmax=over.get("fmax", c.get("fmax", 0.5)), power=over.get("power", 4),
        directional_spreading_constant=p["I"], phillips_constant_beta=p["beta"], vonkarman_constant=p["kappa"],
        number_of_bins=c.get("nb", 20), direction_convention=convention or c.get("convention", "going_to_counter_clockwise_east"),
        charnock_constant=p["alpha"], viscous_constant=p["cvisc"])


def check_dataset(ds, shape, ust_ref, z0_ref, u10_ref, dir_ref, what, skip=None):
    us = np.asarray(ds["friction_velocity"].values, dtype=float)
    require(us.shape == shape, "output_shape", f"{what}: {us.shape} vs {shape}")
    u10 = np.asarray(ds["u10"].values, dtype=float).reshape(-1)
    di = np.asarray(ds["direction"].values, dtype=float).reshape(-1)
    us = us.reshape(-1)
    for i in range(len(us)):
        if i == skip:
            continue                     # the all-NaN member: no equilibrium level exists, nothing is asserted about it
        require(abs(us[i] - ust_ref[i]) <= 1e-9 * ust_ref[i], "friction_velocity_closed_form",
                f"{what} [{i}]: got {us[i]!r} expected {ust_ref[i]!r}")
        require(abs(u10[i] - u10_ref[i]) <= 1e-9 * abs(u10_ref[i]), "u10_from_log_profile_with_charnock_roughness",
                f"{what} [{i}]: got {u10[i]!r} expected {u10_ref[i]!r} (z0={z0_ref[i]!r})")
        dd = abs((di[i] - dir_ref[i] + 180.0) % 360.0 - 180.0)
        require(dd <= 1e-9, "direction_is_atan2_of_moments", f"{what} [{i}]: got {di[i]!r} expected {dir_ref[i]!r}")
        require(0.0 <= di[i] < 360.0, "direction_in_0_360", f"{what} [{i}]: {di[i]!r}")


def run_tail(c):
    spec = build_tail(c)
    shape = tuple(c["shape"])
    n = int(np.prod(shape)) if shape else 1
    p = c["params"]
    refs = [closed_form(ci, p["I"], p["beta"], p["kappa"], p["alpha"], p["cvisc"]) for ci in c["c"]]
    going = [t % 360.0 for t in c["theta"]]
    dir_ref = going if c["convention"].startswith("going") else [(270.0 - t) % 360.0 for t in going]
    skip = c.get("all_nan_member")
    ds = call(spec, c, c["method"])
    check_dataset(ds, shape, [r[0] for r in refs], [r[1] for r in refs], [r[2] for r in refs], dir_ref,
                  f"method={c['method']} nb={c['nb']} convention={c['convention']}", skip=skip)
    # both methods agree on a spectrum with an exact f^-4 range (batched inputs, no NaN)
    if not c["nan_pre_tail"] and c["layout"] != "none":
        other = "mean" if c["method"] == "peak" else "peak"
        ds2 = call(spec, c, other)
        check_dataset(ds2, shape, [r[0] for r in refs], [r[1] for r in refs], [r[2] for r in refs], dir_ref,
                      f"method={other} (other method)", skip=skip)
    # the two conventions are related by (270 - going_to) mod 360
    dg = np.asarray(call(spec, c, c["method"], "going_to_counter_clockwise_east")["direction"].values).reshape(-1)
    dc = np.asarray(call(spec, c, c["method"], "coming_from_clockwise_north")["direction"].values).reshape(-1)
    keep = np.array([i != skip for i in range(len(dg))])
    require((np.abs(((dc - (270.0 - dg)) + 180.0) % 360.0 - 180.0) <= 1e-9)[keep].all(), "convention_is_270_minus_going_to",
            f"{dg} -> {dc}")
    # scaling the spectrum scales the friction velocity linearly
    s = c["scale"]
    ds3 = call(build_tail(c, s), c, c["method"])
    us3 = np.asarray(ds3["friction_velocity"].values, dtype=float).reshape(-1)
    require((np.abs(us3 - s * np.array([r[0] for r in refs])) <= 1e-9 * s * np.array([r[0] for r in refs]))[keep].all(),
            "friction_velocity_linear_in_spectrum", f"scale={s}")
    nontriv = any(abs((t % 90.0)) > 1e-6 for t in c["theta"])
    return {"nontrivial": nontriv, "classes": ["method_" + c["method"], "layout_" + c["layout"],
                                                "convention_" + c["convention"].split("_")[0],
                                                "default_params" if c["params"]["I"] == 2.5 else "custom_params"] +
            (["nan_bins"] if c["nan_pre_tail"] else []) +
            (["batch_with_an_all_nan_member"] if skip is not None else []) +
            (["members_with_different_f4_ranges"] if len(set(zip(c.get("starts", [0]), map(str, c.get("lengths", [0]))))) > 1 else [])}


# ----------------------------------------------------------------------------- (b) peak method on random spectra
@st.composite
def peak_case(draw):
    two_d = draw(st.integers(0, 2)) == 0
    if two_d:
        s = draw(GS.spec2d_case(layouts=["none", "t", "tl"], max_nf=20, max_nd=24, uniform_only=True,
                                allow_zero_f=False, kinds=["random", "smooth", "sparse", "nan"], max_cells=5000, history=True))
    else:
        s = draw(GS.spec1d_case(layouts=["none", "t", "tl"], allow_zero_f=False, kinds=["random", "smooth", "sparse", "nan"],
                                moments="any", history=True))
    return {"spec": s, "power": draw(st.sampled_from([4, 4, 5, 3])), "params": draw(params()),
            "convention": draw(st.sampled_from(["going_to_counter_clockwise_east", "coming_from_clockwise_north"])),
            "rescale_in_place": draw(st.sampled_from([None, None, "setitem", "dataset_assignment"]))}


def run_peak(c):
    from ..oracle import spec as O
    sc = c["spec"]
    a = GS.case_arrays(sc)
    f = a["f"]
    spec = GS.build(sc)
    if sc["kind"] == "2d":
        e, a1, b1, _, _ = O.moments_2d(a["e"], a["dir"])
        # NaN densities in a 2D spectrum are skipped by the direction sum
    else:
        e, a1, b1 = a["e"], a["a1"], a["b1"]
    scaled = np.nan_to_num(e * f[None, :] ** c["power"], nan=0.0)
    idx = scaled.argmax(axis=-1)
    n = a["n"]
    ar = np.arange(n)
    e_eq = scaled[ar, idx]
    top = np.sort(scaled, axis=-1)
    if (np.abs(top[:, -1] - top[:, -2]) <= 1e-9 * np.abs(top[:, -1])).any() or (e_eq <= 0).any():
        return {"nontrivial": False, "classes": ["ambiguous_or_empty_peak"], "excluded": {"ambiguous_or_empty_peak": 1}}
    if np.isnan(a1[ar, idx]).any() or np.isnan(b1[ar, idx]).any():
        return {"nontrivial": False, "classes": ["nan_moment_at_peak"], "excluded": {"nan_moment_at_peak": 1}}
    p = c["params"]
    refs = [closed_form(x, p["I"], p["beta"], p["kappa"], p["alpha"], p["cvisc"]) for x in e_eq]
    going = np.degrees(np.arctan2(b1[ar, idx], a1[ar, idx])) % 360.0
    dir_ref = going if c["convention"].startswith("going") else (270.0 - going) % 360.0
    cc = {"params": p, "convention": c["convention"], "nb": 20, "fmax": 0.5}
    ds = call(spec, cc, "peak", power=c["power"])
    check_dataset(ds, tuple(a["shape"]), [r[0] for r in refs], [r[1] for r in refs], [r[2] for r in refs],
                  [float(x) for x in dir_ref], f"peak method power={c['power']} kind={sc['kind']}")
    classes = ["peak_" + sc["kind"], f"power{c['power']}", "layout_" + sc["layout"]]
    if sc.get("history"):
        classes.append("object_modified_in_place_after_earlier_queries")
    if sc.get("memory"):
        classes.append("stored_arrays_" + sc["memory"] + "_layout")
    if sc["kind"] == "2d":
        ds1 = call(spec.as_frequency_spectrum(), cc, "peak", power=c["power"])
        for k in ("friction_velocity", "u10", "direction"):
            x2 = np.asarray(ds[k].values, dtype=float)
            x1 = np.asarray(ds1[k].values, dtype=float)
            require(np.allclose(x1, x2, rtol=1e-12, atol=1e-12), "two_d_input_equals_its_1d_reduction", f"{k}: {x1} vs {x2}")
    # the same object estimated again after its contents were scaled in place through the public API: friction velocity
    # scales linearly, the direction stays (nothing may be remembered from the first estimate)
    mode = c.get("rescale_in_place")
    if mode:
        sfac = 3.0
        if mode == "setitem":
            spec["variance_density"] = spec.variance_density * sfac
        else:
            spec.dataset["variance_density"] = spec.dataset["variance_density"] * sfac
        ds3 = call(spec, cc, "peak", power=c["power"])
        refs3 = [closed_form(x * sfac, p["I"], p["beta"], p["kappa"], p["alpha"], p["cvisc"]) for x in e_eq]
        check_dataset(ds3, tuple(a["shape"]), [r[0] for r in refs3], [r[1] for r in refs3], [r[2] for r in refs3],
                      [float(x) for x in dir_ref],
                      f"peak method after scaling the same object in place by 3 ({mode}) kind={sc['kind']}")
        classes.append("estimated_again_after_in_place_scaling")
    return {"nontrivial": bool((np.abs(going % 90.0) > 1e-6).any()), "classes": classes}


SUBCHECKS = [
    SubCheck("analytic_tail", lambda tier: tail_case(), run_tail, {"quick": 300, "thorough": 2500}),
    SubCheck("peak_method", lambda tier: peak_case(), run_peak, {"quick": 250, "thorough": 2000}),
]
