"""C19 — file cache: failed or interrupted downloads never poison the cache (fault enumeration)."""
import json
import os
import shutil
import subprocess
import sys
import tempfile

from hypothesis import strategies as st

from .. import boot
from .. import cachelab as CL
from ..harness import SubCheck, Violation, require

NAMES = ["a", "b", "c", "f"]
KINDS = [
    {"kind": "not_found"},
    {"kind": "missing"},                       # resource no longer has the object
    {"kind": "error_before_write"},
    {"kind": "partial_write", "k": 0},
    {"kind": "partial_write", "k": 1},
    {"kind": "partial_write", "k": "len-1"},
    {"kind": "postprocess_error"},
]
REFETCH_KINDS = [{"kind": "none"}, {"kind": "not_found"}, {"kind": "error_before_write"},
                 {"kind": "partial_write", "k": 1}]
FOLLOWUPS = ["retry", "others", "reopen", "reopen_retry"]
CRASH_KINDS = [{"kind": "crash_before_write"}, {"kind": "partial_write", "k": 1, "crash": True},
               {"kind": "partial_write", "k": "len-1", "crash": True}, {"kind": "crash_after_write"}]

META = {
    "level": "fault_enumeration",
    "technique": "fault enumeration over generated request histories: every fault kind at every download position, with every follow-up (retry / other request / reopen / reopen+retry); subprocess crashes via os._exit in the thorough tier",
    "rule": ("generated bounded histories (<= 4 requests of 1..3 URIs, 4 resources with comment suffixes) in "
             "tolerant/strict and sequential/parallel mode; for each history EVERY (request index, download position) "
             "x fault kind {not-found, object missing, exception before any write, exception after a partial write of "
             "0/1/len-1 bytes, exception in post-processing} x follow-up {retry, request other URIs, reopen, reopen then "
             "retry} is executed on a fresh cache directory; validation-rejected entries are re-requested with the "
             "re-fetch succeeding / failing in each way. A scenario is non-trivial when the fault hits after >= 1 "
             "entry is already cached and is followed by >= 1 further request. Distinct = sha1 of (history, position, "
             "kind, follow-up). Thorough adds real crashes: the faulted request runs in a subprocess whose download "
             "function calls os._exit at each interruption point."),
    "level_text": ("for every generated history the product positions x fault kinds x follow-ups is enumerated "
                   "exhaustively; the history space itself is sampled"),
    "exhaustive": False,
    "assumptions": [
        "interruption points are those of the download/post-process pipeline (before any write, after k bytes, after the full write, in post-processing); power-loss semantics (unsynced data) are not modelled",
        "after a request that raised, complete but unregistered files may exist on disk; they must hold the complete resource and are adopted only by a reopen",
        "pool worker threads that outlive a raising parallel request are joined before the directory is inspected",
    ],
}


@st.composite
def req(draw, names=NAMES):
    n = draw(st.integers(1, 3))
    picked = draw(st.permutations(names))[:n]
    items = []
    for nm in picked:
        it = {"name": nm}
        c = draw(st.sampled_from([None, None, "x"]))
        if c:
            it["comment"] = c
        if draw(st.integers(0, 3)) == 0:
            it["postprocess"] = True
        items.append(it)
    # the same URI may be named twice in a request (possibly with different directives)
    if len(items) < 3 and draw(st.integers(0, 3)) == 0:
        dup = dict(items[draw(st.integers(0, len(items) - 1))])
        if draw(st.booleans()):
            dup["validate"] = "vok"
        items.insert(draw(st.integers(0, len(items))), dup)
    return items


@st.composite
def fault_history(draw):
    n = draw(st.integers(1, 4))
    return {"requests": [draw(req()) for _ in range(n)], "tolerant": draw(st.booleans()),
            "parallel": draw(st.booleans())}


def _key(it):
    return "mem://" + it["name"] + (f"<<{it['comment']}" if it.get("comment") else "")


def scenario(c, r, pos, fault, follow):
    """Run requests[0..r-1] fault-free, request r with the fault at miss position pos, then follow-up."""
    lab = CL.Lab(10 ** 9, c["parallel"], tolerant=c["tolerant"])
    try:
        for q in c["requests"][:r]:
            lab.op_get(q)
        cached_before = len(lab.model)
        items = c["requests"][r]
        misses = [i for i, it in enumerate(items) if _key(it) not in lab.model]
        if pos >= len(misses):
            return None
        ipos = misses[pos]
        failed_key = _key(items[ipos])
        out = lab.op_get_faulted(items, ipos, fault)
        # follow-ups
        def get_checked(q, must_fetch=None):
            log0 = len(lab.res.log)
            strict_before = lab.strict
            lab.op_get(q)
            if must_fetch is not None:
                require(must_fetch in lab.res.log[log0:], "failed_uri_fetched_afresh_on_next_request",
                        f"{must_fetch} was not fetched again; fetched={lab.res.log[log0:]}")
        retry = [dict(it) for it in items]
        if fault["kind"] == "postprocess_error":
            retry[ipos]["postprocess"] = True
        if follow == "retry":
            get_checked(retry, "mem://" + items[ipos]["name"] if failed_key not in lab.model else None)
        elif follow == "others":
            other = [{"name": n} for n in NAMES if n != items[ipos]["name"]][:2]
            get_checked(other)
            get_checked([dict(retry[ipos])], "mem://" + items[ipos]["name"] if failed_key not in lab.model else None)
        elif follow == "reopen":
            lab.op_reopen_sync()
        else:
            lab.op_reopen_sync()
            get_checked(retry, "mem://" + items[ipos]["name"] if failed_key not in lab.model else None)
        return cached_before > 0
    finally:
        CL.settle_threads()
        lab.close()


def run_faults(c):
    subs = []
    counts = {}
    for r, items in enumerate(c["requests"]):
        for pos in range(len(items)):
            for fault in KINDS:
                for follow in FOLLOWUPS:
                    desc = [c, r, pos, fault, follow]
                    try:
                        nt = scenario(c, r, pos, fault, follow)
                    except Violation as v:
                        v.detail = (f"request#{r} miss#{pos} fault={fault} follow-up={follow} tolerant={c['tolerant']} "
                                    f"parallel={c['parallel']} :: {v.detail}")
                        raise
                    if nt is None:
                        continue
                    subs.append((desc, bool(nt)))
                    k = "kind_" + fault["kind"] + (f"_{fault['k']}" if "k" in fault else "")
                    counts[k] = counts.get(k, 0) + 1
                    counts["followup_" + follow] = counts.get("followup_" + follow, 0) + 1
    counts["mode_" + ("tolerant" if c["tolerant"] else "strict") + ("_parallel" if c["parallel"] else "_sequential")] = len(subs)
    return {"nontrivial": False, "sub_cases": subs, "class_counts": counts}


def fixed_faults():
    g = lambda *n: [{"name": x} for x in n]
    return [
        {"requests": [g("a"), g("b", "c")], "tolerant": True, "parallel": False},
        {"requests": [g("a"), g("b", "c", "f")], "tolerant": False, "parallel": True},
        {"requests": [g("a"), g("b", "b")], "tolerant": True, "parallel": False},
        {"requests": [g("a", "b", "a")], "tolerant": True, "parallel": True},
    ] + [
        # requests mixing directives (plain before / after post-processed, three items), in every mode: results must
        # stay paired with the URIs of the request whatever order the downloads are scheduled or finish in
        {"requests": [g("f"), r], "tolerant": tol, "parallel": par}
        for r in ([{"name": "a"}, {"name": "b", "postprocess": True}],
                  [{"name": "a", "postprocess": True}, {"name": "b"}],
                  [{"name": "a"}, {"name": "b", "postprocess": True}, {"name": "c", "comment": "x"}])
        for tol in (True, False) for par in (True, False)
    ]


# ----------------------------------------------------------------------------- validation rejection
@st.composite
def validation_case(draw):
    return {"prefix": draw(req()), "tolerant": draw(st.booleans()), "parallel": draw(st.booleans()),
            "extra": draw(req())}


def run_validation(c):
    subs = []
    counts = {}
    for target in range(len(c["prefix"])):
        for refetch in REFETCH_KINDS:
            for follow in ("plain_get", "reopen_get"):
                lab = CL.Lab(10 ** 9, c["parallel"], tolerant=c["tolerant"])
                try:
                    lab.op_get(c["prefix"])
                    it = dict(c["prefix"][target])
                    it["validate"] = "vbad"
                    it.pop("postprocess", None)
                    key = _key(it)
                    others = [dict(x) for i, x in enumerate(c["prefix"]) if i != target]
                    request = others[:1] + [it]
                    try:
                        if refetch["kind"] == "none":
                            log0 = len(lab.res.log)
                            lab.op_get(request)
                            require("mem://" + it["name"] in lab.res.log[log0:], "rejected_entry_is_refetched",
                                    f"{key} rejected by validation but not fetched again")
                        else:
                            lab.op_get_faulted(request, len(request) - 1, refetch)
                            with CL.warnings.catch_warnings():
                                CL.warnings.simplefilter("ignore")
                                require(lab.cache.in_cache(key) == [False], "rejected_entry_not_served_after_failed_refetch",
                                        f"{key} still reported as cached after validation rejected it and the re-fetch failed")
                        plain = [{k: v for k, v in it.items() if k != "validate"}]
                        if follow == "reopen_get":
                            lab.op_reopen_sync()
                        log0 = len(lab.res.log)
                        had = key in lab.model
                        lab.op_get(plain)
                        if not had:
                            require("mem://" + it["name"] in lab.res.log[log0:], "failed_uri_fetched_afresh_on_next_request",
                                    f"{key}: no fetch; log={lab.res.log[log0:]}")
                    except Violation as v:
                        v.detail = f"target={key} refetch={refetch} follow-up={follow} tolerant={c['tolerant']} parallel={c['parallel']} :: {v.detail}"
                        raise
                    subs.append(([c, target, refetch, follow], True))
                    counts["validation_refetch_" + refetch["kind"]] = counts.get("validation_refetch_" + refetch["kind"], 0) + 1
                finally:
                    CL.settle_threads()
                    lab.close()
    return {"nontrivial": False, "sub_cases": subs, "class_counts": counts}


# ----------------------------------------------------------------------------- real crashes (thorough)
def _one_crash(spec):
    """Run the faulted request in a child that os._exit()s mid-download, then reopen and check."""
    root = tempfile.mkdtemp(prefix="vkcrash_", dir=os.environ.get("TMPDIR") or tempfile.gettempdir())
    try:
        env = dict(os.environ, PYTHONHASHSEED="0")
        p = subprocess.run([sys.executable, "-m", "vk.crashchild", json.dumps(dict(spec, root=root))],
                           cwd=boot.VERIF_ROOT, env=env, capture_output=True, text=True, timeout=300)
        if p.returncode == 0:
            return None
        if p.returncode == 3:
            line = [l for l in p.stdout.splitlines() if l.startswith("CHILD-VIOLATION ")]
            clause, _, detail = (line[-1][len("CHILD-VIOLATION "):] if line else "child ::").partition(" :: ")
            return Violation(clause, "in the crashing process, before the crash point: " + detail)
        if p.returncode != 77:
            return RuntimeError(f"crash child failed rc={p.returncode}: {p.stdout[-500:]} {p.stderr[-800:]}")
        try:
            lab = CL.Lab(10 ** 9, spec["parallel"], tolerant=spec["tolerant"], attach=root)
            lab.op_reopen_sync("after crash + reopen")
            if spec["follow"] == "reopen_retry":
                lab.op_get(spec["requests"][spec["r"]])
            left = [f for f in os.listdir(lab.dir) if f.endswith(".incomplete")]
            return {"temp_left": bool(left)}
        except Violation as v:
            v.detail = (f"request#{spec['r']} miss#{spec['pos']} crash={spec['fault']} follow-up={spec['follow']} "
                        f"tolerant={spec['tolerant']} parallel={spec['parallel']} :: {v.detail}")
            return v
    finally:
        shutil.rmtree(root, ignore_errors=True)


def run_crash(c):
    """Enumerate every (request, download position) x crash point x follow-up of one history."""
    from concurrent.futures import ThreadPoolExecutor
    specs = []
    for r, items in enumerate(c["requests"]):
        for pos in range(len(items)):
            for fault in CRASH_KINDS:
                for follow in ("reopen", "reopen_retry"):
                    specs.append(dict(c, r=r, pos=pos, fault=fault, follow=follow))
    workers = 2 if os.environ.get("VK_SHARD") is not None else 8
    with ThreadPoolExecutor(workers) as ex:
        results = list(ex.map(_one_crash, specs))
    subs, counts = [], {}
    for spec, res in zip(specs, results):
        if isinstance(res, Violation):
            raise res
        if isinstance(res, Exception):
            raise res
        if res is None:
            continue
        subs.append(([spec["requests"], spec["r"], spec["pos"], spec["fault"], spec["follow"]], True))
        k = "crash_" + spec["fault"]["kind"] + (f"_{spec['fault']['k']}" if "k" in spec["fault"] else "")
        counts[k] = counts.get(k, 0) + 1
        if res["temp_left"]:
            counts["crash_left_temp_file_not_adopted"] = counts.get("crash_left_temp_file_not_adopted", 0) + 1
    return {"nontrivial": False, "sub_cases": subs, "class_counts": counts}


def fixed_crash():
    g = lambda *n: [{"name": x} for x in n]
    return [{"requests": [g("a"), [{"name": "b"}, {"name": "c", "postprocess": True}]], "tolerant": True, "parallel": False}]


SUBCHECKS = [
    SubCheck("fault_matrix", lambda tier: fault_history(), run_faults, {"quick": 8, "thorough": 60}, fixed=fixed_faults,
             shrink=True),
    SubCheck("validation_rejection", lambda tier: validation_case(), run_validation, {"quick": 8, "thorough": 50}),
    SubCheck("process_crash", lambda tier: fault_history(), run_crash, {"quick": 1, "thorough": 12}, fixed=fixed_crash,
             shrink=False),
]
