"""C14 — periodic coordinates and angular data interpolate across the wrap."""
import math

import numpy as np
from hypothesis import strategies as st

from ..gen.common import fl
from ..harness import SubCheck, require
from ..oracle import interp as OI

META = {
    "level": "exploration",
    "rule": ("(a) direction/longitude grids of 4..72 monotone nodes (gaps < 170 deg, span < 360, arbitrary "
             "start, ascending/descending) with targets in [-1000,1000] incl. exact nodes and t+360k twins; "
             "(b) angular variables (*direction* names, longitude) interpolated in time/x with jumps across "
             "0/360 and +-180 incl. 179/179.9/180.1/181 degree jumps in both senses; (c) interpolate_periodic, "
             "interpolate_dataframe_time and Track.interpolate; (d) interpolate_at_points on a (time,lat,lon) "
             "grid with tracks crossing the antimeridian. Non-trivial = a target falls in the wrap bin, or the "
             "angular pair straddles a seam; distinct = sha1 of the case."),
    "assumptions": [
        "periodic axis reference: cyclic neighbours found independently, linear weights; value tolerance 1e-9*scale; twins f(t) vs f(t+360k) 1e-9*scale",
        "angular data through the N-d interpolator are unit-vector averages accumulated in complex64: tolerance 1e-3 deg + 2e-5/|resultant| deg; the result must also lie on the shorter arc within that tolerance",
        "interpolate_periodic (tracks, data frames): theta0 + t*wrap(theta1-theta0) exactly linear, compared modulo 360 at 1e-9 deg",
        "jumps of exactly 180 degrees are excluded (both arcs are equally short)",
        "direction results must lie in the half-open [0,360): exactly 360.0 is a violation (integer-valued series with targets on nodes and at midpoints are generated so that results land exactly on the seam)",
    ],
}


def wrap180(x):
    return (np.asarray(x, dtype=float) + 180.0) % 360.0 - 180.0


def cyclic_bracket(xp, x, period=360.0):
    """(i0, i1, t) for a monotone grid spanning < period; includes the wrap bin (n-1 -> 0)."""
    xp = np.asarray(xp, dtype=float)
    sgn = 1.0 if xp[-1] > xp[0] else -1.0
    u = (xp - xp[0]) * sgn
    ux = ((x - xp[0]) * sgn) % period
    n = len(xp)
    if ux >= u[-1]:
        gap = period - u[-1]
        return n - 1, 0, float((ux - u[-1]) / gap)
    i = int(np.searchsorted(u, ux, side="right")) - 1
    i = min(max(i, 0), n - 2)
    return i, i + 1, float((ux - u[i]) / (u[i + 1] - u[i]))


@st.composite
def periodic_grid(draw, min_n=4, max_n=72):
    n = draw(st.one_of(st.integers(min_n, 8), st.integers(min_n, max_n)))
    uniform = draw(st.booleans())
    start = draw(st.one_of(st.sampled_from([0.0, -180.0, 5.0, 180.0, -175.0]), fl(-360.0, 360.0)))
    if uniform:
        gaps = [360.0 / n] * (n - 1)
    else:
        # every cyclic gap (incl. the wrap gap) stays below 164 degrees: 360/(1+3*0.4) for n=4
        w = draw(st.lists(fl(0.4, 1.0), min_size=n, max_size=n))
        tot = sum(w)
        gaps = [360.0 * x / tot for x in w][: n - 1]
    xs = [start]
    for g in gaps:
        xs.append(xs[-1] + g)
    if draw(st.integers(0, 2)) == 0:
        xs = xs[::-1]
    return [float(v) for v in xs]


# ----------------------------------------------------------------------------- (a) periodic axis
@st.composite
def axis_case(draw):
    xp = draw(periodic_grid())
    nt = draw(st.integers(1, 6))
    tg = []
    for _ in range(nt):
        k = draw(st.sampled_from(["any", "any", "node", "node_shift", "wrapbin", "far"]))
        lo, hi = min(xp), max(xp)
        if k == "node":
            v = draw(st.sampled_from(xp))
        elif k == "node_shift":
            v = draw(st.sampled_from(xp)) + 360.0 * draw(st.integers(-2, 2))
        elif k == "wrapbin":
            gap = 360.0 - (hi - lo)
            v = hi + gap * draw(fl(0.01, 0.99)) + 360.0 * draw(st.integers(-2, 2))
        elif k == "far":
            v = draw(fl(-1000.0, 1000.0))
        else:
            v = draw(fl(lo - 10, hi + 10))
        tg.append(float(max(-1000.0, min(1000.0, v))))
    return {"coord": draw(st.sampled_from(["direction", "longitude"])), "xp": xp, "targets": tg,
            "k": draw(st.sampled_from([1, -1, 2, -2])), "seed": draw(st.integers(0, 2 ** 32 - 1)),
            "extra_dim": draw(st.booleans()), "axis_first": draw(st.booleans())}


def run_axis(c):
    import xarray
    from ocean_science_utilities.interpolate.dataset import interpolate_dataset_along_axis
    rng = np.random.default_rng(c["seed"])
    xp = np.array(c["xp"])
    n = len(xp)
    cname = c["coord"]
    if c["extra_dim"]:
        dims = [cname, "frequency"] if c["axis_first"] else ["frequency", cname]
        shape = (n, 3) if c["axis_first"] else (3, n)
        coords = {cname: xp, "frequency": np.array([0.1, 0.2, 0.3])}
    else:
        dims, shape, coords = [cname], (n,), {cname: xp}
    data = rng.uniform(-5, 5, size=shape)
    ds = xarray.Dataset({"energy": xarray.DataArray(data.copy(), dims=dims, coords=coords)})
    tg = np.array(c["targets"], dtype=float)
    out = interpolate_dataset_along_axis(tg, ds, coordinate_name=cname)
    got = np.asarray(out["energy"].values, dtype=float)
    ax = dims.index(cname)
    gv = np.moveaxis(got, ax, 0)
    dv = np.moveaxis(data, ax, 0)
    require(gv.shape == (len(tg),) + dv.shape[1:], "output_shape", f"{got.shape}")
    require(not np.isnan(gv).any(), "no_target_out_of_range_on_periodic_axis",
            lambda: f"targets={tg[np.isnan(gv.reshape(len(tg), -1)).any(axis=1)]} grid=[{xp[0]}..{xp[-1]}]")
    wrap_hit = False
    for j, x in enumerate(tg):
        i0, i1, t = cyclic_bracket(xp, x)
        ref = (1 - t) * dv[i0] + t * dv[i1]
        require((np.abs(gv[j] - ref) <= 1e-9 * 10).all(), "cyclic_piecewise_linear_value",
                f"target={x!r} neighbours=({i0},{i1}) t={t} got={gv[j].ravel()[:3]} ref={ref.ravel()[:3]}")
        if {i0, i1} == {0, n - 1} and 0 < t < 1:
            wrap_hit = True
    tw = tg + 360.0 * c["k"]
    out2 = interpolate_dataset_along_axis(tw, ds, coordinate_name=cname)
    g2 = np.moveaxis(np.asarray(out2["energy"].values, dtype=float), ax, 0)
    require((np.abs(g2 - gv) <= 1e-9 * 10).all(), "targets_360_apart_give_equal_results",
            lambda: f"k={c['k']} max diff={np.abs(g2 - gv).max()}")
    classes = ["coord_" + cname, "descending" if xp[0] > xp[-1] else "ascending"]
    if wrap_hit:
        classes.append("wrap_bin_target")
    if (np.abs(tg) > 360).any():
        classes.append("target_beyond_one_period")
    return {"nontrivial": wrap_hit, "classes": classes}


# ----------------------------------------------------------------------------- (b) angular data, N-d
JUMPS = [10.0, 90.0, 170.0, 179.0, 179.9, 180.1, 181.0, 190.0, 270.0, 350.0]


@st.composite
def angle_series(draw, n):
    """Angles whose successive differences cross the seams in both senses."""
    base = draw(st.sampled_from([0.0, 355.0, 5.0, 180.0, 175.0, 185.0, -175.0, 90.0, 350.0, 10.0, 360.0]))
    exact = draw(st.integers(0, 2)) == 0        # integer-valued series: results can land exactly on the seam
    out = [base]
    for _ in range(n - 1):
        j = draw(st.sampled_from(JUMPS + ([20.0, 10.0, 5.0] if exact else []))) * draw(st.sampled_from([1.0, -1.0]))
        out.append(out[-1] + j + (0.0 if exact else draw(fl(-0.01, 0.01))))
    return out


@st.composite
def angular_case(draw):
    n = draw(st.integers(2, 8))
    steps = draw(st.lists(fl(0.1, 5.0), min_size=n - 1, max_size=n - 1))
    xp = [0.0]
    for s in steps:
        xp.append(xp[-1] + s)
    var = draw(st.sampled_from(["mean_direction", "peakDirection", "longitude"]))
    rep = draw(st.sampled_from(["0_360", "pm180"]))
    ang = draw(angle_series(n))
    ang2 = draw(angle_series(n))
    fr = draw(st.lists(st.one_of(fl(0.0, 1.0), st.sampled_from([0.0, 0.5, 1.0, 0.25, 0.75])), min_size=1, max_size=6))
    seg = draw(st.lists(st.integers(0, n - 2), min_size=len(fr), max_size=len(fr)))
    return {"xp": xp, "var": var, "rep": rep, "angles": ang, "angles2": ang2, "frac": fr, "seg": seg,
            "two_d": draw(st.booleans())}


def _rep(a, rep):
    a = np.asarray(a, dtype=float)
    return a % 360.0 if rep == "0_360" else wrap180(a)


def run_angular(c):
    import xarray
    from ocean_science_utilities.interpolate.dataset import interpolate_dataset_along_axis
    xp = np.array(c["xp"])
    a1 = _rep(c["angles"], c["rep"])
    a2 = _rep(c["angles2"], c["rep"])
    if c["two_d"]:
        data = np.stack([a1, a2], axis=1)
        da = xarray.DataArray(data.copy(), dims=["x", "member"], coords={"x": xp, "member": [0, 1]})
    else:
        data = a1[:, None]
        da = xarray.DataArray(a1.copy(), dims=["x"], coords={"x": xp})
    ds = xarray.Dataset({c["var"]: da})
    tg = np.array([xp[s] + f * (xp[s + 1] - xp[s]) for s, f in zip(c["seg"], c["frac"])])
    out = interpolate_dataset_along_axis(tg, ds, coordinate_name="x")
    got = np.asarray(out[c["var"]].values, dtype=float).reshape(len(tg), -1)
    seam = False
    for j, x in enumerate(tg):
        br = OI.bracket(xp, float(x))
        i0, i1, t = br
        for m in range(data.shape[1]):
            th0, th1 = data[i0, m], data[i1, m]
            d = float(wrap180(th1 - th0))
            if abs(abs(d) - 180.0) < 1e-6:
                continue
            z = (1 - t) * complex(math.cos(math.radians(th0)), math.sin(math.radians(th0))) + \
                t * complex(math.cos(math.radians(th1)), math.sin(math.radians(th1)))
            ref = math.degrees(math.atan2(z.imag, z.real))
            tol = 1e-3 + 2e-5 / max(abs(z), 1e-12)
            g = got[j, m]
            require(math.isfinite(g), "angular_result_finite", f"target={x} got={g}")
            dd = abs(float(wrap180(g - ref)))
            require(dd <= tol, "angular_value_is_shorter_arc_vector_average",
                    f"var={c['var']} th0={th0!r} th1={th1!r} t={t} got={g!r} ref={ref % 360!r} tol={tol:.2e}")
            # on the shorter arc: offset from th0 along d's sense lies within [0, |d|]
            off = float(wrap180(g - th0))
            s = 1.0 if d >= 0 else -1.0
            require(-tol <= off * s <= abs(d) + tol, "angular_result_on_shorter_arc",
                    f"th0={th0} th1={th1} got={g} offset={off} arc={d}")
            if "direction" in c["var"].lower():
                require(0.0 <= g < 360.0, "direction_variable_in_0_360", f"got={g!r} (th0={th0!r} th1={th1!r} t={t})")
            lo, hi = sorted((th0 % 360.0, th1 % 360.0))
            if (hi - lo) > 180.0 and 0 < t < 1:
                seam = True
            if abs(th0 - th1) > 180 and 0 < t < 1:
                seam = True
    return {"nontrivial": seam, "classes": ["var_" + c["var"], "rep_" + c["rep"], "2d" if c["two_d"] else "1d"]}


# ----------------------------------------------------------------------------- (c) interpolate_periodic & friends
T0 = 1_650_000_000


@st.composite
def periodic_fn_case(draw):
    api = draw(st.sampled_from(["function", "function_xperiodic", "dataframe", "track"]))
    n = draw(st.integers(2, 8))
    if api == "function_xperiodic":
        xp = draw(periodic_grid(4, 12))
        if xp[0] > xp[-1]:
            xp = xp[::-1]
        n = len(xp)
        tg = [draw(fl(-1000.0, 1000.0)) for _ in range(draw(st.integers(1, 5)))]
    else:
        steps = draw(st.lists(st.integers(60, 7200), min_size=n - 1, max_size=n - 1))
        xp = [T0]
        for s in steps:
            xp.append(xp[-1] + s)
        tg = []
        for _ in range(draw(st.integers(1, 6))):
            s = draw(st.integers(0, n - 2))
            kind = draw(st.sampled_from(["in", "in", "node", "end"]))
            if kind == "node":
                tg.append(xp[s])
            elif kind == "end":
                tg.append(xp[-1])
            elif draw(st.integers(0, 3)) == 0:
                tg.append((xp[s] + xp[s + 1]) // 2)
            else:
                tg.append(draw(st.integers(xp[s], xp[s + 1])))
    ang = draw(angle_series(n))
    rep = draw(st.sampled_from(["0_360", "pm180"]))
    other = draw(st.lists(fl(-50, 50), min_size=n, max_size=n))
    return {"api": api, "xp": xp, "targets": tg, "angles": ang, "rep": rep, "other": other}


def _lin_angle_ref(xp, ang, x, periodic_x=False):
    if periodic_x:
        i0, i1, t = cyclic_bracket(xp, x)
    else:
        i0, i1, t = OI.bracket(np.asarray(xp), x)
    d = float(wrap180(ang[i1] - ang[i0]))
    return ang[i0] + t * d, d, t, i0, i1


def run_periodic_fn(c):
    import pandas as pd
    from ocean_science_utilities.interpolate.dataframe import interpolate_dataframe_time
    from ocean_science_utilities.interpolate.general import interpolate_periodic
    from ocean_science_utilities.interpolate.geometry import Track
    api = c["api"]
    ang = _rep(c["angles"], c["rep"])
    xp = c["xp"]
    tg = c["targets"]
    other = np.array(c["other"], dtype=float)
    seam = False
    res = {}
    if api in ("function", "function_xperiodic"):
        px = api == "function_xperiodic"
        x_arr = np.array(xp, dtype=float)
        t_arr = np.array(tg, dtype=float)
        discont = 360 if c["rep"] == "0_360" else 180
        got = interpolate_periodic(x_arr, ang.copy(), t_arr, x_period=360 if px else None, fp_period=360,
                                   fp_discont=discont)
        lo_ok, hi_ok = (0.0, 360.0) if discont == 360 else (-180.0, 180.0)
        res["angle"] = (np.asarray(got, dtype=float), (lo_ok, hi_ok))
        got_o = interpolate_periodic(x_arr, other.copy(), t_arr, x_period=360 if px else None)
        res["other"] = np.asarray(got_o, dtype=float)
        tnum = [float(v) for v in tg]
        xnum = [float(v) for v in xp]
    elif api == "dataframe":
        t64 = np.array(xp, dtype="int64").astype("datetime64[s]").astype("datetime64[ns]")
        df = pd.DataFrame({"time": t64, "meanDirection": ang.copy(), "waveheight": other.copy()})
        new = np.array(tg, dtype="int64").astype("datetime64[s]").astype("datetime64[ns]")
        out = interpolate_dataframe_time(df, new)
        require("meanDirection" in out.columns and "waveheight" in out.columns and len(out) == len(tg),
                "dataframe_columns", f"{list(out.columns)}")
        res["angle"] = (np.asarray(out["meanDirection"].values, dtype=float), (0.0, 360.0))
        res["other"] = np.asarray(out["waveheight"].values, dtype=float)
        tnum, xnum = [int(v) for v in tg], [int(v) for v in xp]
        px = False
    else:
        t64 = np.array(xp, dtype="int64").astype("datetime64[s]").astype("datetime64[ns]")
        lat = np.clip(other, -80, 80)
        tr = Track.from_arrays(lat, ang.copy(), t64, "buoy")
        new = np.array(tg, dtype="int64").astype("datetime64[s]").astype("datetime64[ns]")
        out = tr.interpolate(new)
        require(len(out) == len(tg), "track_length", f"{len(out)} vs {len(tg)}")
        res["angle"] = (np.asarray(out.longitude, dtype=float), None)
        res["other"] = np.asarray(out.latitude, dtype=float)
        other = lat
        tnum, xnum = [int(v) for v in tg], [int(v) for v in xp]
        px = False
    g_ang, rng_ = res["angle"]
    for j, x in enumerate(tnum):
        ref, d, t, i0, i1 = _lin_angle_ref(xnum, ang, x, periodic_x=px)
        if abs(abs(d) - 180.0) < 1e-6 and i0 != i1:
            continue
        g = g_ang[j]
        require(math.isfinite(g), "angular_result_finite", f"api={api} target={x}")
        require(abs(float(wrap180(g - ref))) <= 1e-7, "angle_linear_along_shorter_arc",
                f"api={api} th0={ang[i0]!r} th1={ang[i1]!r} t={t} got={g!r} ref={ref % 360!r}")
        if rng_ is not None:
            require(rng_[0] <= g < rng_[1], "angle_in_declared_range",
                    f"api={api} got={g!r} half-open range={rng_} (th0={ang[i0]!r} th1={ang[i1]!r} t={t})")
        if i0 != i1 and 0 < t < 1 and abs(ang[i0] - ang[i1]) > 180:
            seam = True
        # non-angular columns: plain linear
        if px:
            j0, j1, tt = cyclic_bracket(xnum, x)
        else:
            j0, j1, tt = OI.bracket(np.asarray(xnum), x)
        refo = (1 - tt) * other[j0] + tt * other[j1]
        require(abs(res["other"][j] - refo) <= 1e-9 * 100, "non_angular_linear", f"api={api} got={res['other'][j]} ref={refo}")
    return {"nontrivial": seam, "classes": ["api_" + api, "rep_" + c["rep"]]}


# ----------------------------------------------------------------------------- (d) interpolate_at_points
@st.composite
def points_case(draw):
    nlon = draw(st.sampled_from([8, 12, 36]))
    lon0 = draw(st.sampled_from([0.0, -180.0, -175.0, 2.5]))
    nlat = draw(st.integers(2, 5))
    ntime = draw(st.integers(2, 4))
    npts = draw(st.integers(1, 6))
    pts = []
    for _ in range(npts):
        pts.append([draw(fl(0.0, 1.0)), draw(fl(0.0, 1.0)),
                    draw(st.one_of(fl(-360.0, 540.0), st.sampled_from([179.9, -179.9, 180.0, -180.0, 359.5, 0.0])))])
    return {"nlon": nlon, "lon0": lon0, "nlat": nlat, "ntime": ntime, "pts": pts,
            "seed": draw(st.integers(0, 2 ** 32 - 1)), "k": draw(st.sampled_from([1, -1, 2])),
            "angular": draw(st.booleans()),
            # the order in which the caller lists the coordinates of the points is free
            "order": draw(st.permutations(["time", "latitude", "longitude"])),
            "dims": draw(st.sampled_from([["time", "latitude", "longitude"], ["time", "longitude", "latitude"]]))}


def run_points(c):
    import xarray
    from ocean_science_utilities.interpolate.dataset import interpolate_at_points
    rng = np.random.default_rng(c["seed"])
    lon = c["lon0"] + np.arange(c["nlon"]) * (360.0 / c["nlon"])
    lat = np.linspace(-20, 20, c["nlat"])
    tsec = T0 + np.arange(c["ntime"]) * 3600
    t64 = tsec.astype("int64").astype("datetime64[s]").astype("datetime64[ns]")
    shape = (c["ntime"], c["nlat"], c["nlon"])
    data = rng.uniform(-3, 3, size=shape)
    dims = tuple(c.get("dims", ["time", "latitude", "longitude"]))
    perm = [("time", "latitude", "longitude").index(d) for d in dims]
    vars_ = {"hs": (dims, np.transpose(data, perm).copy())}
    periodic_data = None
    if c["angular"]:
        base = rng.uniform(0, 360)
        ang = (base + rng.uniform(-60, 60, size=shape)) % 360.0
        vars_["wave_direction"] = (dims, np.transpose(ang, perm).copy())
        periodic_data = {"wave_direction": (360, 360)}
    ds = xarray.Dataset(vars_, coords={"time": t64, "latitude": lat, "longitude": lon})
    pts = np.array(c["pts"])
    pt_t = tsec[0] + (pts[:, 0] * (tsec[-1] - tsec[0])).astype("int64")
    pt_lat = lat[0] + pts[:, 1] * (lat[-1] - lat[0])
    pt_lon = pts[:, 2]
    p64 = pt_t.astype("int64").astype("datetime64[s]").astype("datetime64[ns]")

    def call(lons):
        allp = {"time": p64.copy(), "latitude": pt_lat.copy(), "longitude": lons.copy()}
        return interpolate_at_points(ds, {k: allp[k] for k in c.get("order", ["time", "latitude", "longitude"])},
                                     independent_variable="time", periodic_coordinates={"longitude": 360},
                                     periodic_data=periodic_data)
    out = call(pt_lon)
    got = np.asarray(out["hs"].values, dtype=float)
    require(got.shape == (len(pts),), "output_shape", f"{got.shape}")
    require(tuple(out["hs"].dims) == ("time",) and (np.asarray(out["hs"].coords["time"].values) == p64).all(),
            "output_indexed_by_independent_variable", f"dims={out['hs'].dims}")
    require(not np.isnan(got).any(), "no_target_out_of_range_on_periodic_axis", f"lons={pt_lon[np.isnan(got)]}")
    wrap_hit = False
    for j in range(len(pts)):
        bt = OI.bracket(tsec.astype(float), float(pt_t[j]))
        bl = OI.bracket(lat, float(pt_lat[j]))
        i0, i1, tx = cyclic_bracket(lon, float(pt_lon[j]))
        ref = 0.0
        for (it, wt) in ((bt[0], 1 - bt[2]), (bt[1], bt[2])):
            for (il, wl) in ((bl[0], 1 - bl[2]), (bl[1], bl[2])):
                for (io, wo) in ((i0, 1 - tx), (i1, tx)):
                    ref += wt * wl * wo * data[it, il, io]
        require(abs(got[j] - ref) <= 1e-9 * 10, "trilinear_value_with_cyclic_longitude",
                f"point={pt_t[j], pt_lat[j], pt_lon[j]} got={got[j]!r} ref={ref!r}")
        if {i0, i1} == {0, c["nlon"] - 1} and 0 < tx < 1:
            wrap_hit = True
    out2 = call(pt_lon + 360.0 * c["k"])
    g2 = np.asarray(out2["hs"].values, dtype=float)
    require((np.abs(g2 - got) <= 1e-8).all(), "targets_360_apart_give_equal_results", f"{g2} vs {got}")
    if c["angular"]:
        ga = np.asarray(out["wave_direction"].values, dtype=float)
        require((np.isfinite(ga) & (ga >= 0) & (ga < 360)).all(), "direction_variable_in_0_360", f"{ga}")
        g2a = np.asarray(out2["wave_direction"].values, dtype=float)
        require((np.abs(wrap180(g2a - ga)) <= 2e-3).all(), "targets_360_apart_give_equal_results", "angular")
    classes = ["points", "angular_var" if c["angular"] else "scalar_var"]
    if list(c.get("order", dims)) != list(dims):
        classes.append("points_listed_in_other_order_than_dims")
    # the library's own track API (lists the point coordinates as time, longitude, latitude)
    if not c["angular"]:
        from ocean_science_utilities.interpolate.dataset import interpolate_dataset
        from ocean_science_utilities.interpolate.geometry import Track
        tr = Track.from_arrays(pt_lat, ((pt_lon + 180.0) % 360.0) - 180.0, p64, "buoy")
        # interpolate_dataset evaluates the track at the dataset's own times
        frames = interpolate_dataset(ds, tr)
        df = frames["track"]
        hv = np.asarray(df["hs"].values, dtype=float)
        require(len(hv) == len(t64), "track_api_length", f"{len(hv)} vs {len(t64)}")
        tl = tr.interpolate(t64)
        for j in range(len(t64)):
            la, lo = float(tl.latitude[j]), float(tl.longitude[j])
            if not (lat[0] <= la <= lat[-1]):
                continue
            bl = OI.bracket(lat, la)
            i0, i1, tx = cyclic_bracket(lon, lo)
            ref = 0.0
            for (il, wl) in ((bl[0], 1 - bl[2]), (bl[1], bl[2])):
                for (io, wo) in ((i0, 1 - tx), (i1, tx)):
                    ref += wl * wo * data[j, il, io]
            require(np.isfinite(hv[j]) and abs(hv[j] - ref) <= 1e-8, "track_api_value_with_cyclic_longitude",
                    f"time index {j}: lat={la} lon={lo} got={hv[j]!r} ref={ref!r}")
        classes.append("track_api")
    return {"nontrivial": wrap_hit, "classes": classes}


SUBCHECKS = [
    SubCheck("periodic_axis", lambda tier: axis_case(), run_axis, {"quick": 500, "thorough": 4000}),
    SubCheck("angular_data", lambda tier: angular_case(), run_angular, {"quick": 400, "thorough": 3000}),
    SubCheck("periodic_functions", lambda tier: periodic_fn_case(), run_periodic_fn, {"quick": 400, "thorough": 3000}),
    SubCheck("at_points", lambda tier: points_case(), run_points, {"quick": 200, "thorough": 1500}),
]
