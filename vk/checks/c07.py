"""C07 — wavenumber solver inverts the dispersion relation; group velocity is consistent."""
import math

import numpy as np
from hypothesis import strategies as st

from ..harness import SubCheck, require
from ..gen.common import fl, log_uniform
from ..gen import spectra as GS

G = 9.81
INF = float("inf")

META = {
    "level": "exploration",
    "rule": ("generated (omega, depth) scalars/arrays (log-uniform over [3e-3,50] x [1e-2,1e4] "
             "plus inf, regimes mixed within one call), pairs for monotonicity, and spectra with "
             "per-point depths; a case is non-trivial when at least one element has "
             "0.05 < k*d < 20 (the first guess is not already exact); distinct = sha1 of the case"),
    "assumptions": [
        "residual tolerance 1e-3*omega exactly as documented by the solver (strict '<' in code, '<=' checked)",
        "asymptote/monotonicity slacks derive from that residual through n=cg/c>=1/2: deep 2.1e-3, shallow 2.1e-3, depth-monotonicity 5e-3",
        "group velocity compared with the analytic derivative (1/2+kd/sinh 2kd)*omega(k)/k at the SAME k, 2e-3 relative",
        "domain: omega in [3e-3,50], d in [1e-2,1e4] or inf; float inputs",
        "spectrum wiring is asserted for the object as built and again after its per-point depths were reassigned in place (spectrum['depth'] = ..., dataset['depth'] = ...): the arrays are functions of the current depths",
    ],
}


def _funcs():
    from ocean_science_utilities.wavetheory import lineardispersion as L
    return L


def omega_of(k, d):
    kd = k * d
    th = 1.0 if (math.isinf(d) or kd > 30) else math.tanh(kd)
    return math.sqrt(G * k * th)


def n_exact(k, d):
    if math.isinf(d):
        return 0.5
    kd = k * d
    if 2 * kd > 600:
        return 0.5
    return 0.5 + kd / math.sinh(2 * kd)


def check_elements(w, d, k, label=""):
    """Per-element oracle. Returns number of elements in the intermediate regime."""
    inter = 0
    for wi, di, ki in zip(w, d, k):
        require(math.isfinite(ki) and ki > 0, "k_positive_finite", f"{label} w={wi} d={di} k={ki}")
        res = abs(omega_of(ki, di) - wi)
        require(res <= 1e-3 * wi * (1 + 1e-9), "dispersion_residual",
                f"{label} w={wi!r} d={di!r} k={ki!r} rel.residual={res / wi:.3e}")
        kd = ki * di
        if kd > 20:
            require(abs(ki - wi * wi / G) <= 2.1e-3 * ki, "deep_asymptote",
                    f"w={wi} d={di} k={ki} deep={wi * wi / G}")
        if kd < 0.05:
            ks = wi / math.sqrt(G * di)
            require(abs(ki - ks) <= 2.1e-3 * ki, "shallow_asymptote", f"w={wi} d={di} k={ki} shallow={ks}")
        if 0.05 < kd < 20:
            inter += 1
    return inter


def check_cg(k, d, cg, label=""):
    for ki, di, ci in zip(k, d, cg):
        c = omega_of(ki, di) / ki
        ref = n_exact(ki, di) * c
        require(abs(ci - ref) <= 2e-3 * ref, "group_velocity", f"{label} k={ki!r} d={di!r} cg={ci!r} ref={ref!r}")
        ratio = ci / c
        require(0.5 - 1e-12 <= ratio <= 1 + 1e-12, "cg_over_c_range", f"k={ki} d={di} n={ratio}")


# ----------------------------------------------------------------------------- sub-check 1
@st.composite
def _wd(draw):
    w = draw(log_uniform(3e-3, 50.0))
    c = draw(st.integers(0, 9))
    if c == 0:
        d = INF
    elif c <= 3:
        # aim at the intermediate regime: choose kd then derive d from the deep estimate
        kd = draw(log_uniform(0.02, 40.0))
        d = min(1e4, max(1e-2, kd * G / (w * w)))
    else:
        d = draw(log_uniform(1e-2, 1e4))
    return [w, d]


def _expand_wd(seed, size):
    rng = np.random.default_rng(seed)
    w = np.exp(rng.uniform(math.log(3e-3), math.log(50.0), size))
    d = np.exp(rng.uniform(math.log(1e-2), math.log(1e4), size))
    c = rng.integers(0, 10, size)
    kd = np.exp(rng.uniform(math.log(0.02), math.log(40.0), size))
    d = np.where((c >= 1) & (c <= 3), np.clip(kd * G / (w * w), 1e-2, 1e4), d)
    d = np.where(c == 0, np.inf, d)
    return np.clip(w, 3e-3, 50.0).tolist(), d.tolist()


@st.composite
def arrays_case(draw):
    mode = draw(st.sampled_from(["scalar", "array", "array", "array_scalar_depth"]))
    if mode == "scalar":
        w, d = draw(_wd())
        return {"mode": mode, "w": [w], "d": [d]}
    if draw(st.booleans()):
        size = draw(st.integers(1, 6))
        pairs = draw(st.lists(_wd(), min_size=size, max_size=size))
        w = [p[0] for p in pairs]
        d = [p[1] for p in pairs]
    else:
        size = draw(st.integers(7, 200))
        w, d = _expand_wd(draw(st.integers(0, 2 ** 32 - 1)), size)
    if mode == "array_scalar_depth":
        d = [d[0]] * len(w)
    return {"mode": mode, "w": w, "d": d}


def fixed_arrays():
    out = []
    # kd = 5 +- 1e-6 (derivative switch), omega = sqrt(g/d) (first-guess switch)
    for d in (1.0, 10.0, 250.0):
        for eps in (-1e-6, 0.0, 1e-6):
            k = (5 + eps) / d
            w = math.sqrt(G * k * math.tanh(k * d))
            if 3e-3 <= w <= 50:
                out.append({"mode": "scalar", "w": [w], "d": [d]})
                out.append({"mode": "array", "w": [w, 0.01, 49.0], "d": [d, 1e4, 1e-2]})
        w = math.sqrt(G / d)
        for s in (1 - 1e-12, 1.0, 1 + 1e-12):
            out.append({"mode": "scalar", "w": [w * s], "d": [d]})
    out.append({"mode": "array", "w": [3e-3, 50.0, 3e-3, 50.0], "d": [1e-2, 1e-2, 1e4, 1e4]})
    out.append({"mode": "array", "w": [3e-3, 50.0, 1.0], "d": [INF, INF, INF]})
    return out


def run_arrays(case):
    L = _funcs()
    w = case["w"]
    d = case["d"]
    if case["mode"] == "scalar":
        k = L.inverse_intrinsic_dispersion_relation(float(w[0]), float(d[0]))
        cg = L.intrinsic_group_velocity(np.array(k), float(d[0]))
    elif case["mode"] == "array_scalar_depth":
        k = L.inverse_intrinsic_dispersion_relation(np.array(w), float(d[0]))
        cg = L.intrinsic_group_velocity(np.array(k), float(d[0]))
    else:
        k = L.inverse_intrinsic_dispersion_relation(np.array(w), np.array(d))
        cg = L.intrinsic_group_velocity(np.array(k), np.array(d))
    k = np.asarray(k)
    require(k.shape == (len(w),), "shape", f"k.shape={k.shape} expected {(len(w),)}")
    inter = check_elements(w, d, k.tolist(), case["mode"])
    check_cg(k.tolist(), d, np.asarray(cg).tolist(), case["mode"])
    classes = [case["mode"], "has_inf_depth" if any(math.isinf(x) for x in d) else "finite_only"]
    kd = [ki * di for ki, di in zip(k.tolist(), d)]
    if len(w) > 1 and min(kd) < 0.05 and max(kd) > 20:
        classes.append("mixed_regimes_one_call")
    return {"nontrivial": inter > 0, "classes": classes}


# ----------------------------------------------------------------------------- sub-check 2
@st.composite
def mono_case(draw):
    w1 = draw(log_uniform(3e-3, 49.0))
    w2 = min(50.0, w1 * draw(fl(1.01, 3.0)))
    d1 = draw(log_uniform(1e-2, 9e3))
    d2 = draw(st.one_of(st.just(INF), fl(1.0001, 50.0).map(lambda r: min(1e4, d1 * r))))
    return {"w1": w1, "w2": w2, "d1": d1, "d2": d2}


def run_mono(case):
    L = _funcs()
    w1, w2, d1, d2 = case["w1"], case["w2"], case["d1"], case["d2"]
    if not (w2 >= 1.01 * w1 and d2 > d1):
        return {"nontrivial": False, "classes": ["degenerate_pair"]}
    k = L.inverse_intrinsic_dispersion_relation(np.array([w1, w2, w1]), np.array([d1, d1, d2]))
    k11, k21, k12 = [float(x) for x in k]
    require(k21 > k11, "monotone_in_omega", f"w1={w1} w2={w2} d={d1}: k1={k11} k2={k21}")
    require(k12 <= k11 * (1 + 5e-3), "non_increasing_in_depth",
            f"w={w1} d1={d1} d2={d2}: k(d1)={k11} k(d2)={k12}")
    # also per scalar call
    ks = float(L.inverse_intrinsic_dispersion_relation(float(w2), float(d1))[0])
    require(ks > k11 * (1 - 2.1e-3) , "monotone_scalar_vs_array", f"{ks} vs {k11}")
    kd = k11 * d1
    return {"nontrivial": 0.05 < kd < 20, "classes": ["pair"]}


# ----------------------------------------------------------------------------- sub-check 3
def run_spectrum(case):
    spec = GS.build(case)
    a = GS.case_arrays(case)
    f = a["f"]
    shape = a["shape"]
    nf = len(f)
    n = a["n"]
    w = (2 * np.pi * f).tolist()

    def verify(dep, stage):
        k = np.asarray(spec.wavenumber.values)
        require(k.shape == tuple(shape) + (nf,), "wavenumber_shape", f"{stage}: {k.shape} vs {tuple(shape) + (nf,)}")
        k2 = k.reshape(n, nf)
        wl = np.asarray(spec.wavelength.values).reshape(n, nf)
        ws = np.asarray(spec.wave_speed().values).reshape(n, nf)
        cg = np.asarray(spec.group_velocity.values).reshape(n, nf)
        inter = 0
        for i in range(n):
            d = [float(dep[i])] * nf
            inter += check_elements(w, d, k2[i].tolist(), f"{stage}: spectrum point {i}")
            check_cg(k2[i].tolist(), d, cg[i].tolist(), f"{stage}: spectrum point {i}")
            for j in range(nf):
                require(abs(wl[i, j] - 2 * np.pi / k2[i, j]) <= 1e-12 * wl[i, j], "wavelength",
                        f"{stage}: point {i} f={f[j]}")
                require(abs(ws[i, j] - w[j] / k2[i, j]) <= 1e-12 * ws[i, j], "wave_speed",
                        f"{stage}: point {i} f={f[j]}")
        return inter

    dep = np.where(np.isnan(a["depth"]), np.inf, a["depth"])
    inter = verify(dep, "as built")
    # the arrays are functions of the spectrum's CURRENT per-point depths: change the depths of the same object
    # (item assignment, the documented way to fill in depths from a bathymetry look-up) and read again
    old = np.asarray(a["depth"], dtype=float).reshape(-1)
    fin = old[np.isfinite(old)]
    how = int(fin.sum() * 1e3) % 3 if fin.size else 0
    new = np.where(np.isfinite(old), np.clip(old * (0.31 if how != 1 else 3.3), 1e-2, 1e4), 7.0)
    if how == 2 and n > 1:
        new[0] = np.nan                       # a depth that becomes missing = deep water
    dvar = spec.dataset["depth"]
    if how == 1:
        spec.dataset["depth"] = (dvar.dims, new.reshape(dvar.shape))
    else:
        spec["depth"] = (dvar.dims, new.reshape(dvar.shape))
    inter += verify(np.where(np.isnan(new), np.inf, new), "after the depths of the same object were reassigned")
    classes = ["layout_" + case["layout"], "spec_" + case["kind"], "depth_reassigned"]
    if np.isnan(a["depth"]).any():
        classes.append("nan_depth")
    if len(set(dep.tolist())) > 1:
        classes.append("per_point_depths_differ")
    return {"nontrivial": inter > 0, "classes": classes}


def spectrum_strategy(tier):
    s1 = GS.spec1d_case(allow_zero_f=False, max_nf=16, kinds=["random"])
    s2 = GS.spec2d_case(allow_zero_f=False, max_nf=10, max_nd=12, kinds=["random"])
    return st.one_of(s1, s1, s2)


SUBCHECKS = [
    SubCheck("solver", lambda tier: arrays_case(), run_arrays,
             {"quick": 2500, "thorough": 12000}, fixed=fixed_arrays),
    SubCheck("monotone", lambda tier: mono_case(), run_mono, {"quick": 1500, "thorough": 6000}),
    SubCheck("spectrum_wiring", spectrum_strategy, run_spectrum, {"quick": 150, "thorough": 800}),
]


def warmup():
    L = _funcs()
    L.inverse_intrinsic_dispersion_relation(1.0, 10.0)
    L.inverse_intrinsic_dispersion_relation(np.array([1.0]), 10.0)
    k = L.inverse_intrinsic_dispersion_relation(np.array([1.0]), np.array([10.0]))
    L.intrinsic_group_velocity(k, 10.0)
    L.intrinsic_group_velocity(k, np.array([10.0]))
    k = L.inverse_intrinsic_dispersion_relation(np.ones((1, 2)), np.ones((1, 2)))
    L.intrinsic_group_velocity(k, np.ones((1, 2)))
