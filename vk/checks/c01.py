"""C01 — spectral moments and integral wave parameters equal their defining integrals."""
import numpy as np
from hypothesis import strategies as st

from ..gen import spectra as GS
from ..harness import SubCheck, require
from ..oracle import spec as O

META = {
    "level": "exploration",
    "rule": ("generated 1D and 2D spectra (dims (), (time), (time,latitude), flattened index; uniform/"
             "geometric/random frequency grids incl. f=0; smooth/random/sparse/plateau/NaN values; "
             "magnitudes 1e-6..1e3) x bands {default, random, exactly on grid points, empty, single "
             "point, outside} x powers 0..4. Non-trivial = band holds >= 2 grid points and >= 1 positive "
             "finite value; distinct = sha1 of the case."
             " Frequency grids also include steps that are small whole multiples of a base step (first step often equals the mean step)."
             " Bands include limits an ulp to 1e-7 relative off a grid frequency, on either side (near_grid)."),
    "assumptions": [
        "oracle: half-open mask fmin<=f<fmax, NaN->0, composite trapezoid over consecutive in-band points (2D: e(f) from an independent wrapped direction sum)",
        "tolerance |got-ref| <= 1e-12*sum|terms| (+1e-300); derived Hm0/Tm01/Tm02 1e-11 relative; NaN==NaN, inf==inf",
        "additivity is asserted for pairs sharing their NaN mask (NaN+x is NaN, then counted as zero)",
        "Tm02<=Tm01 and the 1/f bounds asserted only for non-negative spectra with m0>0 (slack 1e-12)",
        "the defining integral is also asserted after a documented in-place modification of the same object (multiply(inplace=True) with and without dimension labels, fillna, item assignment) following an earlier query of the same moment",
    ],
}


@st.composite
def case(draw):
    two_d = draw(st.integers(0, 2)) == 0
    if two_d:
        s = draw(GS.spec2d_case(max_nf=20, max_nd=36, max_cells=6000, relabel=True, history=True, dtypes=True))
    else:
        s = draw(GS.spec1d_case(history=True, dtypes=True))
    b = draw(GS.band(s["f"]))
    return {"spec": s, **b, "power": draw(st.integers(0, 4)),
            "c": draw(st.sampled_from([0.25, 2.0, 3.7, 1000.0, 1e-3])),
            "seed2": draw(st.integers(0, 2 ** 31))}


def e_ref(a, sc):
    if sc["kind"] == "2d":
        return O.e_of_2d(a["e"], a["dir"])
    return a["e"]


def _vals(x, n):
    return np.asarray(x.values if hasattr(x, "values") else x, dtype=float).reshape(n)


def run(c):
    sc = c["spec"]
    a = GS.case_arrays(sc)
    f, n = a["f"], a["n"]
    spec = GS.build(sc)
    fmin, fmax, p = c["fmin"], c["fmax"], c["power"]
    e = e_ref(a, sc)                       # (n, nf)
    shape = tuple(a["shape"])

    def cmp(name, got, ref, scale, rel=1e-12):
        got_a = np.asarray(got.values if hasattr(got, "values") else got, dtype=float)
        require(got_a.shape == shape, "result_shape", f"{name}: shape {got_a.shape} expected {shape}")
        ok = O.close(got_a.reshape(n), ref, rel=rel, abs_=1e-300, scale=scale)
        require(ok.all(), name, lambda: f"band=[{fmin!r},{fmax!r}) power={p} got={got_a.reshape(n)[~ok][:3]!r} "
                                        f"ref={np.asarray(ref)[~ok][:3]!r} layout={sc['layout']} kind={sc['kind']}")

    ref_p, abs_p = O.moment(f, e, p, fmin, fmax)
    cmp("frequency_moment", spec.frequency_moment(p, fmin, fmax), ref_p, abs_p)
    m0, a0 = O.moment(f, e, 0, fmin, fmax)
    m1, a1 = O.moment(f, e, 1, fmin, fmax)
    m2, a2 = O.moment(f, e, 2, fmin, fmax)
    cmp("m0", spec.m0(fmin, fmax), m0, a0)
    cmp("m1", spec.m1(fmin, fmax), m1, a1)
    cmp("m2", spec.m2(fmin, fmax), m2, a2)
    with np.errstate(all="ignore"):
        hm0 = 4 * np.sqrt(m0)
        tm01 = m0 / m1
        tm02 = np.sqrt(m0 / m2)
    g_hm0 = spec.hm0(fmin, fmax)
    g_tm01 = spec.tm01(fmin, fmax)
    g_tm02 = spec.tm02(fmin, fmax)
    cmp("hm0", g_hm0, hm0, None, rel=1e-11)
    cmp("tm01", g_tm01, tm01, None, rel=1e-11)
    cmp("tm02", g_tm02, tm02, None, rel=1e-11)
    if c["band"] == "default":
        with np.errstate(all="ignore"):
            cmp("significant_waveheight", spec.significant_waveheight, hm0, None, rel=1e-11)
            cmp("mean_period", spec.mean_period, tm01, None, rel=1e-11)
            cmp("zero_crossing_period", spec.zero_crossing_period, tm02, None, rel=1e-11)

    # period ordering / bounds (non-negative densities by construction)
    mask = O.band_mask(f, fmin, fmax)
    fb = f[mask]
    gt1 = _vals(g_tm01, n)
    gt2 = _vals(g_tm02, n)
    if len(fb) >= 2:
        for i in range(n):
            if m0[i] > 0 and np.isfinite(gt1[i]) and np.isfinite(gt2[i]):
                require(gt2[i] <= gt1[i] * (1 + 1e-12), "tm02_le_tm01", f"tm02={gt2[i]!r} tm01={gt1[i]!r}")
                require(gt2[i] >= (1 / fb[-1]) * (1 - 1e-12), "period_ge_1_over_f_last",
                        f"tm02={gt2[i]!r} 1/f_last={1 / fb[-1]!r}")
                if fb[0] > 0:
                    require(gt1[i] <= (1 / fb[0]) * (1 + 1e-12), "period_le_1_over_f_first",
                            f"tm01={gt1[i]!r} 1/f_first={1 / fb[0]!r}")

    # scaling: built independently, and through multiply()
    cc = c["c"]
    sc2 = dict(sc, history=None, dtype=None)
    sc2["e"] = (np.array(sc["e"], dtype=float) * cc).tolist()
    spec_c = GS.build(sc2)
    cmp("scale_moment", spec_c.frequency_moment(p, fmin, fmax), cc * ref_p, cc * abs_p, rel=4e-12)
    with np.errstate(all="ignore"):
        cmp("scale_hm0", spec_c.hm0(fmin, fmax), np.sqrt(cc) * _vals(g_hm0, n), None, rel=1e-11)
        cmp("scale_tm01_invariant", spec_c.tm01(fmin, fmax), gt1, None, rel=1e-10)
        cmp("scale_tm02_invariant", spec_c.tm02(fmin, fmax), gt2, None, rel=1e-10)
    via_mult = spec.multiply(np.full(len(f), cc), ["frequency"])
    cmp("multiply_scales_moment", via_mult.frequency_moment(p, fmin, fmax), cc * ref_p, cc * abs_p, rel=4e-12)

    # additivity with a second spectrum sharing the NaN mask
    rng = np.random.default_rng(c["seed2"])
    e1 = np.array(sc["e"], dtype=float)
    e2 = rng.uniform(0, 1, e1.shape) * (np.nanmax(e1) if np.isfinite(np.nanmax(e1)) and e1.size else 1.0)
    e2[np.isnan(e1)] = np.nan
    sc3 = dict(sc, history=None, dtype=None)
    sc3["e"] = e2.tolist()
    spec2 = GS.build(sc3)
    a3 = GS.case_arrays(sc3)
    ref2, abs2 = O.moment(f, e_ref(a3, sc3), p, fmin, fmax)
    cmp("moment_of_sum", (spec + spec2).frequency_moment(p, fmin, fmax), ref_p + ref2, abs_p + abs2, rel=4e-12)

    # moments follow in-place modifications of the same object (query, modify in place, query again)
    spec_m = GS.build(dict(sc, history=None, dtype=None))
    first = np.asarray(spec_m.frequency_moment(p, fmin, fmax).values, dtype=float)
    _ = spec_m.hm0(fmin, fmax), spec_m.tm02(fmin, fmax)
    weights = 1.0 + np.arange(len(f)) / max(len(f), 1)
    how = c["seed2"] % 4
    if how == 0:
        spec_m.multiply(weights, ["frequency"], inplace=True)
        e_new = np.array(sc["e"], dtype=float).reshape(a["e"].shape) * (weights[:, None] if sc["kind"] == "2d" else weights)
    elif how == 1:
        full = np.broadcast_to(weights[:, None] if sc["kind"] == "2d" else weights, spec_m.shape()).copy()
        spec_m.multiply(full, inplace=True)
        e_new = np.array(sc["e"], dtype=float).reshape(a["e"].shape) * (weights[:, None] if sc["kind"] == "2d" else weights)
    elif how == 2:
        spec_m.fillna(cc)
        e_new = np.array(sc["e"], dtype=float).reshape(a["e"].shape)
        e_new = np.where(np.isnan(e_new), cc, e_new)
    else:
        spec_m["variance_density"] = spec_m.dataset["variance_density"] * cc
        e_new = np.array(sc["e"], dtype=float).reshape(a["e"].shape) * cc
    sc_new = dict(sc)
    sc_new["e"] = e_new.reshape(-1).tolist()
    ref_new, abs_new = O.moment(f, e_ref(GS.case_arrays(sc_new), sc_new), p, fmin, fmax)
    cmp("moment_after_in_place_modification", spec_m.frequency_moment(p, fmin, fmax), ref_new, abs_new, rel=4e-12)
    with np.errstate(all="ignore"):
        m0n, _ = O.moment(f, e_ref(GS.case_arrays(sc_new), sc_new), 0, fmin, fmax)
        cmp("hm0_after_in_place_modification", spec_m.hm0(fmin, fmax), 4 * np.sqrt(m0n), None, rel=1e-11)

    nb = int(mask.sum())
    eb = e[:, mask]
    nontriv = nb >= 2 and bool(np.any(np.isfinite(eb) & (eb > 0)))
    classes = ["band_" + c["band"], "layout_" + sc["layout"], "spec_" + sc["kind"], "values_" + sc["values"]]
    if sc.get("history"):
        classes.append("object_modified_in_place_after_earlier_queries")
    if sc.get("memory"):
        classes.append("stored_arrays_" + sc["memory"] + "_layout")
    if sc.get("dtype"):
        classes.append("density_stored_as_" + sc["dtype"])
    if nb >= 1 and (fmin in f.tolist() or fmax in f.tolist()):
        classes.append("band_edge_on_grid_point")
    if np.isnan(np.array(sc["e"], dtype=float)).any():
        classes.append("has_nan")
    df = np.diff(f)
    if len(df) > 1 and (df.max() - df.min()) > 1e-9 * df.max():
        classes.append("nonuniform_f")
    if f[0] == 0:
        classes.append("f0_is_zero")
    return {"nontrivial": nontriv, "classes": classes}


SUBCHECKS = [
    SubCheck("moments", lambda tier: case(), run, {"quick": 700, "thorough": 5000}),
]
