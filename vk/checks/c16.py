"""C16 — synthetic time series carry the spectrum's variance and are reproducible."""
import math

import numpy as np
from hypothesis import strategies as st

from ..gen.common import fl, freq_grid
from ..harness import SubCheck, require

META = {
    "level": "exploration",
    "rule": ("generated single 1D spectra and 2D spectra with all energy in exactly one direction bin (any bin, "
             "8..72 bins), random spectral shapes on random frequency grids, sampling rates 0.5..10 Hz, even/odd "
             "signal lengths 8..20000, six components, seeds 0..2^32-1. Non-trivial = wave direction not a "
             "multiple of 90 degrees (2D) or 1D input, and >= 3 non-zero FFT bins; distinct = sha1 of the case."
             " Two thirds of the cases re-use the same object directly after its last use: with a second sampling rate (compared bit-for-bit with a fresh object) and after scaling it in place."
             " A quarter of the short records use a spectrum defined exactly on the FFT bins of the record."),
    "assumptions": [
        "resampled spectrum recomputed independently with np.interp on the FFT bins k*fs/nfft, 0 outside the grid",
        "sample variance compared with sum_{k>=1} E_k*df (w: omega^2 weighting) at 1e-9 relative (DFT orthogonality makes it exact)",
        "a sample frequency k*fs/nfft equal, within 1e-12 relative, to the first or last frequency of the spectrum may be resampled as inside or outside (one bin of E(end)*df slack); exact multiples are common (f0=0.05, fs=0.5, nfft=6000)",
        "1D spectra carry no direction in the generator: x equals the full elevation variance, y is zero",
        "same-seed series compared bit-for-bit; scaled series 1e-12 relative",
    ],
}


@st.composite
def case(draw, big=False):
    two_d = draw(st.booleans())
    f = draw(freq_grid(3, 30, allow_zero=True, fmax=4.0))
    nf = len(f)
    e = draw(st.lists(st.one_of(fl(0.0, 5.0), st.just(0.0)), min_size=nf, max_size=nf))
    e = [0.0 if x < 1e-100 else x for x in e]          # no subnormal-range densities (amplitudes underflow to zero)
    if sum(e) == 0:
        e[nf // 2] = 1.0
    c = {"two_d": two_d, "f": f, "e": e,
         "fs": draw(st.one_of(st.sampled_from([0.5, 1.0, 2.5, 10.0]), fl(0.5, 10.0))),
         "L": draw(st.one_of(st.integers(8, 64), st.integers(8, 600), st.integers(8, 600), st.integers(8, 600),
                             st.integers(600, 4000), st.integers(4000, 20000) if big else st.integers(8, 64))),
         "seed": draw(st.integers(0, 2 ** 32 - 1)), "seed2": draw(st.integers(0, 2 ** 32 - 1)),
         # seeds that differ only in a few (high or low) bits must still give different series
         "seed_alias": draw(st.sampled_from([1, 2 ** 8, 2 ** 16, 2 ** 24, 2 ** 31])),
         "scale": draw(st.sampled_from([4.0, 0.25, 2.0, 9.0, 1e-4])),
         # object reuse: a second rate for the same object and length; contents scaled in place afterwards
         "fs2": draw(st.sampled_from([None, 1.0, 2.0, 4.0, 0.8])),
         "modify_in_place": draw(st.sampled_from([None, "setitem", "multiply"]))}
    if c["L"] <= 80 and draw(st.integers(0, 3)) == 0:
        # a spectrum that already lives exactly on the FFT bins of the requested record (as produced by resampling once)
        nfft_ = (c["L"] // 2) * 2
        c["f"] = [float(x) for x in np.linspace(0, c["fs"] / 2, nfft_ // 2, endpoint=False)]
        nf = len(c["f"])
        if nf >= 3:
            e = (e + [1.0] * nf)[:nf]
            c["e"] = e
            c["on_fft_bins"] = True
        else:
            c["f"] = f
    if two_d:
        nd = draw(st.integers(8, 72))
        c["nd"] = nd
        # any bin, with the two bins next to the wrap of the direction axis over-represented
        c["bin"] = draw(st.one_of(st.integers(0, nd - 1), st.sampled_from([0, nd - 1])))
        c["t0"] = draw(st.sampled_from([0.0, 0.0, 2.5, 7.0, 180.0 / nd]))
        c["labels"] = draw(st.sampled_from(["0_360", "0_360", "pm180"]))
    return c


def build(c, scale=1.0):
    from ocean_science_utilities.wavespectra.spectrum import create_1d_spectrum, create_2d_spectrum
    f = np.array(c["f"])
    e = np.array(c["e"]) * scale
    t = np.datetime64("2022-01-01T00:00:00")
    if c["two_d"]:
        nd = c["nd"]
        d = (c["t0"] + np.arange(nd) * 360.0 / nd) % 360.0
        if c.get("labels") == "pm180":
            d = -180.0 + d                       # the same uniform grid labelled in [-180, 180)
        dstep = 360.0 / nd
        E = np.zeros((len(f), nd))
        E[:, c["bin"]] = e / dstep
        return create_2d_spectrum(f, d, E, t, 0.0, 0.0, dims=("frequency", "direction")), float(d[c["bin"]])
    return create_1d_spectrum(f, e, t, 0.0, 0.0, dims=("frequency",)), 0.0


def run(c):
    from ocean_science_utilities.wavespectra.timeseries import surface_timeseries
    spec, theta = build(c)
    fs, L, seed = c["fs"], c["L"], c["seed"]
    nfft = (L // 2) * 2
    fk = np.arange(nfft // 2) * fs / nfft
    df = fs / nfft
    Ek = np.interp(fk, np.array(c["f"]), np.array(c["e"]), left=0.0, right=0.0)
    var_z = float((Ek[1:] * df).sum())
    var_w = float(((2 * np.pi * fk[1:]) ** 2 * Ek[1:] * df).sum())
    # a sample frequency that coincides with the first or last frequency of the spectrum within rounding (k*fs/nfft
    # evaluated in another order of operations) may count as inside or outside the spectrum; where the density does
    # not vanish at that end the resampled value jumps between 0 and E(end). Both readings are admissible.
    fa = np.array(c["f"])
    edge = np.zeros(len(fk), dtype=bool)
    for fe in (fa[0], fa[-1]):
        edge |= np.abs(fk - fe) <= 1e-12 * max(fe, 1e-300)
    edge[0] = False
    amb_z = float((np.maximum(Ek, np.interp(fk, fa, np.array(c["e"])))[edge] * df).sum())
    amb_w = float(((2 * np.pi * fk[edge]) ** 2 * np.maximum(Ek, np.interp(fk, fa, np.array(c["e"])))[edge] * df).sum())
    ct, sn = math.cos(math.radians(theta)), math.sin(math.radians(theta))
    expect = {"z": var_z, "w": var_w, "x": ct ** 2 * var_z, "y": sn ** 2 * var_z,
              "u": ct ** 2 * var_w, "v": sn ** 2 * var_w}
    slack = {"z": amb_z, "w": amb_w, "x": ct ** 2 * amb_z, "y": sn ** 2 * amb_z, "u": ct ** 2 * amb_w, "v": sn ** 2 * amb_w}
    series = {}
    for comp in ("z", "w", "x", "y", "u", "v"):
        t, s = surface_timeseries(comp, fs, L, spec, seed)
        t = np.asarray(t)
        s = np.asarray(s)
        require(len(s) == len(t) == nfft, "as_many_samples_as_time_axis",
                f"component={comp} L={L} len(series)={len(s)} len(time)={len(t)} expected={nfft}")
        require(np.allclose(t, np.arange(nfft) / fs, rtol=1e-12, atol=1e-12), "time_axis_spacing",
                f"fs={fs} t[:3]={t[:3]}")
        require(np.isrealobj(s) and np.isfinite(s).all(), "series_real_finite", comp)
        v = float(np.var(s))
        scale = max(var_w if comp in ("w", "u", "v") else var_z, 1e-300)
        # a constant offset (the f=0 bin) leaves round-off of order eps^2*mean^2 in np.var
        floor = 1e-24 * float(np.mean(s) ** 2 + np.abs(s).max() ** 2)
        require(abs(v - expect[comp]) <= 1e-9 * scale + floor + slack[comp] * (1 + 1e-9), f"variance_of_{comp}",
                f"fs={fs} L={L} theta={theta} var={v!r} expected={expect[comp]!r}")
        series[comp] = s
    # reproducibility
    _, s_again = surface_timeseries("z", fs, L, spec, seed)
    require(np.asarray(s_again).tobytes() == series["z"].tobytes(), "same_seed_same_series", f"seed={seed}")
    nz_bins = int((Ek[1:] > 0).sum())
    if c["seed2"] != seed and nz_bins >= 1:
        _, s_other = surface_timeseries("z", fs, L, spec, c["seed2"])
        require(not np.array_equal(np.asarray(s_other), series["z"]), "different_seed_different_series",
                f"seeds {seed} {c['seed2']}")
        alias = (seed + c.get("seed_alias", 1)) % 2 ** 32
        _, s_alias = surface_timeseries("z", fs, L, spec, alias)
        require(not np.array_equal(np.asarray(s_alias), series["z"]), "different_seed_different_series",
                f"seeds {seed} {alias}")
    # (directly after the calls above, before any other spectrum object is used:) the same object used again with another
    # sampling rate (same length), and after its contents were replaced in place: the record must be the one a freshly built object gives (nothing remembered from earlier calls)
    sc = c["scale"]
    fs2 = c.get("fs2")
    if fs2 and fs2 != fs:
        _, s_reuse = surface_timeseries("z", fs2, L, spec, seed)
        fresh, _ = build(c)
        _, s_fresh = surface_timeseries("z", fs2, L, fresh, seed)
        require(np.asarray(s_reuse).tobytes() == np.asarray(s_fresh).tobytes(),
                "series_does_not_depend_on_earlier_calls_with_the_same_object",
                f"fs={fs} then fs2={fs2} L={L}: max diff={np.abs(np.asarray(s_reuse) - np.asarray(s_fresh)).max()!r}")
    if c.get("modify_in_place"):
        surface_timeseries("z", fs, L, spec, seed)      # the object's last use directly precedes its modification
        if c["modify_in_place"] == "setitem":
            spec["variance_density"] = spec.variance_density * sc
        else:
            spec.multiply(np.full(len(c["f"]), sc), ["frequency"], inplace=True)
        _, s_mod = surface_timeseries("z", fs, L, spec, seed)
        ref = math.sqrt(sc) * series["z"]
        tol = 1e-11 * max(float(np.abs(ref).max()), 1e-300)
        require(np.abs(np.asarray(s_mod) - ref).max() <= tol, "scaling_by_c_scales_series_by_sqrt_c",
                f"object scaled in place ({c['modify_in_place']}) c={sc} max diff={np.abs(np.asarray(s_mod) - ref).max()!r}")
    # scaling
    sc = c["scale"]
    spec_c, _ = build(c, sc)
    for comp in ("z", "u"):
        _, s2 = surface_timeseries(comp, fs, L, spec_c, seed)
        ref = math.sqrt(sc) * series[comp]
        tol = 1e-12 * max(float(np.abs(ref).max()), 1e-300)
        require(np.abs(np.asarray(s2) - ref).max() <= tol * 10, "scaling_by_c_scales_series_by_sqrt_c",
                f"component={comp} c={sc} max diff={np.abs(np.asarray(s2) - ref).max()!r}")
    classes = (["energy_in_last_direction_bin_of_grid_not_starting_at_0"]
               if c["two_d"] and c["bin"] == c["nd"] - 1 and (c["t0"] != 0.0 or c.get("labels") == "pm180") else [])
    classes += ["2d" if c["two_d"] else "1d", "odd_L" if L % 2 else "even_L",
               "L>=600" if L >= 600 else "L<600"]
    if c.get("on_fft_bins"):
        classes.append("spectrum_already_on_the_fft_bins")
    if fs2 and fs2 != fs:
        classes.append("same_object_second_sampling_rate")
    if c.get("modify_in_place"):
        classes.append("object_scaled_in_place_" + c["modify_in_place"])
    oblique = (not c["two_d"]) or (abs(theta % 90.0) > 1e-9)
    if c["two_d"] and oblique:
        classes.append("oblique_direction")
    return {"nontrivial": oblique and nz_bins >= 3, "classes": classes}


@st.composite
def axis_case(draw):
    """Cheap cases aimed at the sample count / time axis only (one component)."""
    return {"two_d": False, "f": [0.05, 0.1, 0.2, 0.4], "e": [1.0, 2.0, 1.0, 0.5],
            "fs": draw(st.one_of(st.sampled_from([3.0, 6.0, 7.0, 0.7, 1.1, 9.9, 2.5, 0.6]), fl(0.5, 10.0))),
            "L": draw(st.one_of(st.integers(8, 200), st.integers(8, 3000))),
            "seed": draw(st.integers(0, 2 ** 32 - 1))}


def run_axis(c):
    from ocean_science_utilities.wavespectra.timeseries import surface_timeseries
    spec, _ = build(c)
    fs, L = c["fs"], c["L"]
    nfft = (L // 2) * 2
    comp = "zwxyuv"[c["seed"] % 6]
    t, s = surface_timeseries(comp, fs, L, spec, c["seed"])
    t, s = np.asarray(t), np.asarray(s)
    require(len(s) == len(t) == nfft, "as_many_samples_as_time_axis",
            f"component={comp} fs={fs!r} L={L} len(series)={len(s)} len(time)={len(t)} expected={nfft}")
    require(np.allclose(t, np.arange(nfft) / fs, rtol=1e-12, atol=1e-12), "time_axis_spacing", f"fs={fs!r} L={L}")
    return {"nontrivial": True, "classes": ["axis_only", "odd_L" if L % 2 else "even_L"]}


SUBCHECKS = [
    SubCheck("timeseries", lambda tier: case(big=(tier == "thorough")), run, {"quick": 200, "thorough": 1200}),
    SubCheck("sample_count", lambda tier: axis_case(), run_axis, {"quick": 600, "thorough": 5000}),
]
