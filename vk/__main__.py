"""CLI:  python -m vk run --property C07 --tier quick|thorough [--shard k --nshards n]
         python -m vk replay <replay.json>
         python -m vk setup
Exit codes: 0 property held on everything explored, 1 violation (VIOLATION line printed),
2 harness error (HARNESS-ERROR line; never a VIOLATION).
"""
import argparse
import importlib
import json
import os
import subprocess
import sys
import time
import traceback


def _load(prop):
    return importlib.import_module(f"vk.checks.{prop.lower()}")


def _run_local(prop, tier, seed, shard, nshards, only=None):
    from . import harness as H
    mod = _load(prop)
    rec = H.Recorder(prop, tier, seed)
    known = H.load_known()
    meta = mod.META
    subs = [s for s in mod.SUBCHECKS if (tier == "thorough" or not s.thorough_only)]
    if only:
        subs = [s for s in subs if s.name in only]
    budget_s = float(os.environ.get("VK_WALL_BUDGET_S", meta.get("wall_budget_s", {}).get(tier, 1500)))
    deadline = time.time() + budget_s
    shrink_s = 25.0 if tier == "quick" else 90.0
    sub_seed = seed if shard is None else seed * 1000 + shard
    for i, sub in enumerate(subs):
        n = sub.budget.get(tier, 0)
        scale = float(os.environ.get("VK_SCALE", "1"))
        n = int(max(1, n * scale)) if n > 0 else 0
        if shard is not None and shard > 0 and getattr(sub, "shard0_only", False):
            continue
        t_sub = time.time()
        try:
            H.run_sub(rec, sub, n, sub_seed * 31 + i, known, shrink_s, deadline)
        except H.HarnessError as e:
            # keep violations found so far; a harness error only decides the exit code if nothing else did
            rec.harness_errors = getattr(rec, "harness_errors", []) + [f"{sub.name}: {e}"]
        if sub.name in rec.sub:
            rec.sub[sub.name]["wall_s"] = round(rec.sub[sub.name].get("wall_s", 0) + time.time() - t_sub, 1)
    return rec


def cmd_run(args):
    t0 = time.time()
    prop = args.property.upper()
    tier = args.tier or os.environ.get("VERIF_TIER", "quick")
    os.environ["VERIF_TIER_EFFECTIVE"] = tier
    seed = int(os.environ.get("VERIF_SEED", "1"))
    only = set(args.only.split(",")) if args.only else None
    from . import boot
    boot.boot()
    from . import harness as H
    mod = _load(prop)
    meta = mod.META

    if args.shard is not None:
        rec = _run_local(prop, tier, seed, args.shard, args.nshards, only)
        out = {"dump": rec.dump(), "known": rec.known, "harness_errors": getattr(rec, "harness_errors", [])}
        with open(args.out, "w") as fh:
            json.dump(out, fh, default=H._default)
        return 0

    nshards = meta.get("shards", {}).get(tier, 1 if tier == "quick" else 16)
    if args.nshards:
        nshards = args.nshards
    if nshards <= 1:
        rec = _run_local(prop, tier, seed, None, 1, only)
    else:
        if hasattr(mod, "warmup"):
            mod.warmup()
        work = os.path.join(boot.VERIF_ROOT, ".work", f"{prop}.{tier}.{os.getpid()}")
        os.makedirs(work, exist_ok=True)
        procs = []
        for k in range(nshards):
            out = os.path.join(work, f"shard{k}.json")
            env = dict(os.environ, VK_SHARD=str(k), VK_NSHARDS=str(nshards), VERIF_SEED=str(seed),
                       PYTHONHASHSEED="0")
            cmd = [sys.executable, "-m", "vk", "run", "--property", prop, "--tier", tier,
                   "--shard", str(k), "--nshards", str(nshards), "--out", out]
            if args.only:
                cmd += ["--only", args.only]
            procs.append((k, out, subprocess.Popen(cmd, cwd=boot.VERIF_ROOT, env=env,
                                                    stdout=subprocess.PIPE, stderr=subprocess.STDOUT)))
        rec = H.Recorder(prop, tier, seed)
        failed = []
        for k, out, p in procs:
            o, _ = p.communicate()
            if p.returncode != 0 or not os.path.exists(out):
                failed.append((k, p.returncode, o.decode(errors="replace")[-3000:]))
                continue
            with open(out) as fh:
                d = json.load(fh)
            rec.merge(d["dump"])
            if d.get("harness_errors"):
                rec.harness_errors = getattr(rec, "harness_errors", []) + d["harness_errors"]
            for kn in d["known"]:
                if not any(x["id"] == kn["id"] for x in rec.known):
                    rec.known.append(kn)
        import shutil
        shutil.rmtree(work, ignore_errors=True)
        if failed:
            for k, rc, o in failed:
                print(f"HARNESS-ERROR property={prop} shard={k} rc={rc}\n{o}")
            return 2
        # de-duplicate violations by bucket
        seen = {}
        for v in rec.violations:
            seen.setdefault(v["bucket"], v)
        rec.violations = list(seen.values())

    if hasattr(mod, "finalize"):
        mod.finalize(rec)
    wall = time.time() - t0
    H.write_evidence(rec, meta, wall)
    for kn in rec.known:
        print(f"KNOWN-FINDING: property={prop} {kn['what']}")
    for v in rec.violations:
        print(f"VIOLATION property={prop} replay={v['replay']} subcheck={v['subcheck']} "
              f"clause={v['clause']} :: {v['detail'][:300]}")
    herr = getattr(rec, "harness_errors", [])
    for h in herr:
        print(f"HARNESS-ERROR property={prop} {h[:1500]}")
    print(f"[vk] {prop} tier={tier} seed={seed} evaluations={rec.evaluations} "
          f"distinct_nontrivial={len(rec.nontrivial)} violations={len(rec.violations)} "
          f"wall={wall:.1f}s")
    if rec.violations:
        return 1
    return 2 if herr else 0


def cmd_replay(args):
    from . import boot
    boot.boot()
    from . import harness as H
    with open(args.path) as fh:
        d = json.load(fh)
    prop = d["property"]
    mod = _load(prop)
    sub = {s.name: s for s in mod.SUBCHECKS}[d["subcheck"]]
    rec = H.Recorder(prop, "quick", 0)
    try:
        rec.evaluate(sub, d["case"])
    except H.Violation as v:
        print(f"VIOLATION property={prop} replay={args.path} subcheck={sub.name} "
              f"clause={v.clause} :: {v.detail[:500]}")
        return 1
    print(f"[vk] replay {args.path}: property held")
    return 0


def cmd_setup(args):
    from . import boot
    boot.boot()
    # warm numba caches for the unchanged tree so quick checks do not pay compilation
    boot.ensure_package("atheris")
    print("[vk] atheris available")
    for prop in ("C07", "C05", "C08", "C10", "C11"):
        try:
            mod = _load(prop)
        except ImportError:
            continue
        if hasattr(mod, "warmup"):
            t = time.time()
            mod.warmup()
            print(f"[vk] warmup {prop} {time.time() - t:.1f}s")
    print("[vk] setup ok")
    return 0


def main():
    ap = argparse.ArgumentParser(prog="vk")
    sp = ap.add_subparsers(dest="cmd", required=True)
    r = sp.add_parser("run")
    r.add_argument("--property", required=True)
    r.add_argument("--tier", default=None)
    r.add_argument("--shard", type=int, default=None)
    r.add_argument("--nshards", type=int, default=None)
    r.add_argument("--out", default=None)
    r.add_argument("--only", default=None)
    p = sp.add_parser("replay")
    p.add_argument("path")
    sp.add_parser("setup")
    args = ap.parse_args()
    try:
        if args.cmd == "run":
            rc = cmd_run(args)
        elif args.cmd == "replay":
            rc = cmd_replay(args)
        else:
            rc = cmd_setup(args)
    except SystemExit:
        raise
    except BaseException as e:  # noqa
        print(f"HARNESS-ERROR {type(e).__name__}: {e}")
        traceback.print_exc()
        rc = 2
    sys.stdout.flush()
    sys.exit(rc)


if __name__ == "__main__":
    main()
