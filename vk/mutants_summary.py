"""Write notes/sensitivity/SUMMARY.md from the per-property result files."""
import glob
import json
import os

VERIF = os.path.dirname(os.path.dirname(os.path.abspath(__file__)))


def main():
    from .mutant_table import MUTANTS
    rows = []
    per = {}
    res = {}
    for f in glob.glob(os.path.join(VERIF, "notes", "sensitivity", "C*.json")):
        res.update(json.load(open(f)))
    lines = ["# Sensitivity: hand-written mutants vs. the quick tier", "",
             "One string edit at a time is applied to a scratch copy of the source (`python -m vk.mutants`), the", 
             "property's quick check is run with VERIF_REPO pointing at it; KILLED = exit 1 with a VIOLATION line.", "",
             "| property | mutant | file | seeds run | result |", "|---|---|---|---|---|"]
    for m in MUTANTS:
        key = f"{m[0]}:{m[1]}"
        r = res.get(key, {})
        seeds = sorted(r)
        ok = bool(r) and all(x.get("killed") for x in r.values())
        per.setdefault(m[0], [0, 0])
        per[m[0]][1] += 1
        per[m[0]][0] += ok
        lines.append(f"| {m[0]} | {m[1]} | {m[2]} | {','.join(seeds) or '-'} | {'KILLED' if ok else ('not run' if not r else 'SURVIVED')} |")
    lines += ["", "## Totals", "", "| property | killed / mutants |", "|---|---|"]
    for p in sorted(per):
        lines.append(f"| {p} | {per[p][0]} / {per[p][1]} |")
    tot = [sum(v[0] for v in per.values()), sum(v[1] for v in per.values())]
    lines.append(f"| all | {tot[0]} / {tot[1]} |")
    with open(os.path.join(VERIF, "notes", "sensitivity", "SUMMARY.md"), "w") as fh:
        fh.write("\n".join(lines) + "\n")
    print(f"{tot[0]}/{tot[1]} killed")
    return per, tot


if __name__ == "__main__":
    main()
