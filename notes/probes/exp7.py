import numpy as np, numba
from ocean_science_utilities.wavespectra.estimators import mem2 as M
N=36
dr = np.linspace(0,2*np.pi,N,endpoint=False)
tw = np.empty((4,N)); tw[0]=np.cos(dr); tw[1]=np.sin(dr); tw[2]=np.cos(2*dr); tw[3]=np.sin(2*dr)
inc = np.full(N, 2*np.pi/N)
m = np.array([-0.675842693529585, -0.19738793422816, -0.07264996421001135, -0.0672019861326203])
g = M.initial_value(m[0:1],m[1:2],m[2:3],m[3:4])[0]
try:
    print("jit", M.mem2_newton_solver(m, g, inc, tw, None, False)[:5])
except Exception as e:
    print("jit ERR", e)
try:
    D = M.mem2_newton_solver.py_func(m, g, inc, tw, None, False)
    print("py", D[:5], (D*inc).sum())
    print(M.moment_constraints(np.zeros(4), tw, m, inc))
except Exception as e:
    import traceback; traceback.print_exc()
