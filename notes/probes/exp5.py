import numpy as np, time, warnings
from ocean_science_utilities.wavespectra.estimators.estimate import estimate_directional_distribution
rng = np.random.default_rng(1)
def vm_moments(mu, kappa):
    from scipy.special import iv
    r1 = iv(1,kappa)/iv(0,kappa); r2 = iv(2,kappa)/iv(0,kappa)
    return r1*np.cos(mu), r1*np.sin(mu), r2*np.cos(2*mu), r2*np.sin(2*mu)
N=36
d = np.linspace(0,360,N,endpoint=False)
for method, sm in [("mem",None),("mem2","newton"),("mem2","scipy"),("mem2","approximate")]:
    bad=0; exc=0; t0=time.time(); worst=0
    for trial in range(300):
        kind = trial%3
        if kind==0:
            mu = rng.uniform(0,2*np.pi); kappa = 10**rng.uniform(-1,3)
            m = vm_moments(mu,kappa)
        elif kind==1:
            # noisy/unrealisable
            r = rng.uniform(0,0.999); th=rng.uniform(0,2*np.pi)
            m = (r*np.cos(th), r*np.sin(th), rng.uniform(-1,1), rng.uniform(-1,1))
        else:
            m = tuple(rng.uniform(-0.7,0.7,4)); 
            if m[0]**2+m[1]**2>=1: continue
        a = [np.array([x]) for x in m]
        kw = {} if sm is None else {"solution_method":sm}
        try:
            with warnings.catch_warnings():
                warnings.simplefilter("ignore")
                D = estimate_directional_distribution(*a, d, method=method, **kw)
        except Exception as e:
            exc+=1
            if exc<3: print(method, sm, "EXC", type(e).__name__, str(e)[:100], m)
            continue
        s = D.sum(-1)*(360/N)
        if not np.all(np.isfinite(D)) or D.min()<-1e-12 or abs(s-1).max()>1e-8:
            bad+=1
            if bad<4: print(method, sm, "BAD", m, D.min(), s)
    print(method, sm, "bad",bad,"exc",exc, time.time()-t0)
