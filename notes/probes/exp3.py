import time, numpy as np, xarray, warnings
from ocean_science_utilities.wavespectra.parametric import create_parametric_frequency_direction_spectrum
from ocean_science_utilities.wavespectra.operations import concatenate_spectra
from ocean_science_utilities.wavephysics.balance.factory import create_balance
from ocean_science_utilities.wavephysics.balance import wind_inversion as wi
from ocean_science_utilities.wavephysics.balance.dissipation import _bulk_dissipation_direction_point
f = np.linspace(0.03, 1.0, 40)
d = np.linspace(0,360,24,endpoint=False)
s = create_parametric_frequency_direction_spectrum(f, 0.15, 4.0, direction_degrees=d, mean_direction_degrees=30., width_degrees=30, time=np.datetime64('2022-01-01T00:00:00'), latitude=0., longitude=0.)
spec = concatenate_spectra([s], dim='time')
bal = create_balance('st4','st4')
grid = bal.generation.spectral_grid(spec)
vd = spec.variance_density.values[0]
direction, bulk = _bulk_dissipation_direction_point(vd, np.inf, bal.dissipation._dissipation_function, grid, bal.dissipation.parameters)
print("dir, bulk", direction, bulk)
args = dict(bulk_rate=-bulk, variance_density=vd, guess_u10=10.0, guess_direction=direction, depth=np.inf, spectral_grid=grid, parameters=bal.generation.parameters,
   wind_source_term_function=bal.generation._wind_source_term_function, tail_stress_parametrization_function=bal.generation._tail_stress_parametrization_function,
   time_derivative_spectrum=np.zeros_like(vd), direction_iteration=False)
print("jit:", wi._u10_from_bulk_rate_point(**args))
try:
    print("py :", wi._u10_from_bulk_rate_point.py_func(**args))
except Exception as e:
    import traceback; traceback.print_exc()
for U in [2,5,8,10,12,15,20,25,30,40]:
    u10 = xarray.DataArray([float(U)], dims='time', coords={'time':spec.dataset.time})
    wd = xarray.DataArray([direction], dims='time', coords={'time':spec.dataset.time})
    print(U, (bal.generation.bulk_rate(spec,u10,wd)+bal.dissipation.bulk_rate(spec)).values)
