import sys; sys.path.insert(0,'/tmp/scratch/rc/src')
import os, tempfile, time, warnings, shutil
warnings.simplefilter("ignore")
from ocean_science_utilities.filecache.cache_object import FileCache
from ocean_science_utilities.filecache.remote_resources import RemoteResource, _RemoteResourceUriNotFound
import ocean_science_utilities.filecache.cache_object as co
print(co.__file__)
class Res(RemoteResource):
    URI_PREFIX="mem://"
    def __init__(self): self.log=[]; self.data={}; self.fail={}
    def download(self):
        def dl(uri, fp):
            self.log.append(uri)
            k = uri[len("mem://"):]
            if k in self.fail:
                kind=self.fail[k]
                if kind=="nf": raise _RemoteResourceUriNotFound(uri)
                if kind=="partial":
                    with open(fp,"wb") as f: f.write(self.data[k][:3])
                    raise IOError("boom")
            if k not in self.data: raise _RemoteResourceUriNotFound(uri)
            with open(fp,"wb") as f: f.write(self.data[k])
            return True
        return dl
td = tempfile.mkdtemp(dir='/tmp/scratch')
r = Res(); r.data={"a":b"A"*400,"b":b"B"*400,"c":b"C"*400,"d":b"D"*300}
c = FileCache(td, size_GB=1000/1e9, resources=[r], parallel=False)
print("max bytes", c.config.max_size_bytes)
def ls(): return sorted((f, os.path.getsize(os.path.join(td,f))) for f in os.listdir(td))
pa = c["mem://a"]; pb=c["mem://b"]; print(pa,pb, len(c))
print("hit a", c["mem://a"], r.log)
pc = c["mem://c"]; print("after c:", [os.path.basename(x) for x in c._entries], r.log)
print("a exists?", os.path.exists(pa[0]), "b exists?", os.path.exists(pb[0]))
# comment suffix
p1 = c["mem://d<<x"]; p2 = c["mem://d<<y"]; print(p1, p2, r.log)
# big request
r.data["big"]=b"X"*5000
pbig = c["mem://big"]; print("big", c.config.max_size_bytes, ls())
# partial failure
r.data["e"]=b"E"*100; r.fail["e"]="partial"
try: c["mem://e"]
except Exception as e: print("raised", type(e).__name__)
print(ls(), list(c._entries))
c2 = FileCache(td, size_GB=1, resources=[r], parallel=False)
r.fail.clear()
pe = c2["mem://e"]; print("reopen serve e:", open(pe[0],'rb').read()[:10], r.log[-2:])
print(open(os.path.join(td,'file_cache_config.json')).read())
