import time, numpy as np, xarray, warnings
t0=time.time()
from ocean_science_utilities.wavespectra.parametric import create_parametric_frequency_direction_spectrum
from ocean_science_utilities.wavespectra.operations import concatenate_spectra
from ocean_science_utilities.wavephysics.balance.factory import create_balance
print("import", time.time()-t0)
f = np.linspace(0.03, 1.0, 40)
d = np.linspace(0,360,24,endpoint=False)
specs=[]
for i,(hs,fp,md) in enumerate([(2.0,0.12,30.),(3.,0.1,200.)]):
    s = create_parametric_frequency_direction_spectrum(f, fp, hs, direction_degrees=d, mean_direction_degrees=md, width_degrees=30, time=np.datetime64('2022-01-01T00:00:00')+np.timedelta64(i,'h'), latitude=0., longitude=0.)
    specs.append(s)
spec = concatenate_spectra(specs, dim='time')
print(spec.dataset)
bal = create_balance('st4','st4')
u10 = xarray.DataArray([10., 15.], dims='time', coords={'time':spec.dataset.time})
wd = xarray.DataArray([30., 200.], dims='time', coords={'time':spec.dataset.time})
t0=time.time()
z0 = bal.generation.roughness(u10, wd, spec)
print("roughness", z0.values, time.time()-t0)
t0=time.time()
r = bal.generation.rate(spec, u10, wd)
print("rate", float(r.min()), float(r.max()), time.time()-t0)
br = bal.generation.bulk_rate(spec, u10, wd)
print("bulk", br.values)
st = bal.generation.stress(spec,u10,wd)
print(st)
t0=time.time()
dr = bal.dissipation.rate(spec)
print("diss", float(dr.min()), float(dr.max()), time.time()-t0)
print(bal.dissipation.bulk_rate(spec).values)
