import sys; sys.path.insert(0,'/tmp/scratch/rc/src')
import os, tempfile, warnings
warnings.simplefilter("ignore")
from ocean_science_utilities.filecache.cache_object import FileCache
from ocean_science_utilities.filecache.remote_resources import RemoteResource, _RemoteResourceUriNotFound
class Res(RemoteResource):
    URI_PREFIX="mem://"
    def __init__(self): self.log=[]; self.data={}; self.fail={}
    def download(self):
        def dl(uri, fp):
            self.log.append(uri); k = uri[len("mem://"):]
            if self.fail.get(k)=="nf" or k not in self.data: raise _RemoteResourceUriNotFound(uri)
            with open(fp,"wb") as f: f.write(self.data[k])
            return True
        return dl
# (a) F15
td = tempfile.mkdtemp(dir='/tmp/scratch'); r=Res(); r.data={"a":b"A"*100}
c = FileCache(td, size_GB=1e-3, resources=[r], parallel=False)
c.set_directive_function("validate","chk", lambda fp: False)
p = c["mem://a"]; print("first", p, os.path.exists(p[0]))
r.fail["a"]="nf"
p2 = c["validate=chk:mem://a"]; print("revalidate w/ failing refetch ->", p2, "entries", len(c))
p3 = c["mem://a"]; print("later plain get ->", p3, "exists:", [os.path.exists(x) for x in p3], "log", r.log)
# (b) F13: current-request file evicted
td = tempfile.mkdtemp(dir='/tmp/scratch'); r=Res(); r.data={"a":b"A"*400,"b":b"B"*400,"c":b"C"*400}
c = FileCache(td, size_GB=1000/1e9, resources=[r], parallel=False)
print("limit", c.config.max_size_bytes)
pa=c["mem://a"]; 
import time; time.sleep(0.02)
pb=c["mem://b"]; time.sleep(0.02)
res = c[["mem://a","mem://c"]]
print("request [a,c] ->", [os.path.exists(x) for x in res], "b exists", os.path.exists(pb[0]))
