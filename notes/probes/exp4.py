import numpy as np, numba
from ocean_science_utilities.wavephysics.balance.solvers import numba_newton_raphson

@numba.njit
def f(x, a):
    return x*x - a

@numba.njit
def solve_kw(guess, a):
    args=(a,)
    try:
        r = numba_newton_raphson(f, guess, args, (0, np.inf), atol=1e-2, rtol=1.0, numerical_stepsize=1e-3)
    except:
        r = np.nan
    return r

@numba.njit
def solve_kw_notry(guess, a):
    args=(a,)
    return numba_newton_raphson(f, guess, args, (0, np.inf), atol=1e-2, rtol=1.0, numerical_stepsize=1e-3)

@numba.njit
def solve_pos(guess, a):
    args=(a,)
    try:
        r = numba_newton_raphson(f, guess, args, (0, np.inf), 100, True, 1e-2, 1.0, 1e-3)
    except:
        r = np.nan
    return r
print("kw try", solve_kw(3.0, 16.0))
try:
    print("kw notry", solve_kw_notry(3.0, 16.0))
except Exception as e:
    print("ERR", type(e), e)
print("pos try", solve_pos(3.0, 16.0))
print("py", numba_newton_raphson.py_func(f, 3.0, (16.0,), (0,np.inf), atol=1e-2, rtol=1.0, numerical_stepsize=1e-3))
