import numpy as np, xarray, traceback, warnings, tempfile, os
from ocean_science_utilities.wavespectra.parametric import create_parametric_spectrum
from ocean_science_utilities.wavespectra.spectrum import create_1d_spectrum, create_2d_spectrum
from ocean_science_utilities.wavespectra.timeseries import surface_timeseries
def probe(name, fn):
    try:
        r = fn(); print("OK  ", name, "->", r if not hasattr(r,'shape') or np.size(r)<10 else np.shape(r))
    except Exception as e:
        print("FAIL", name, type(e).__name__, str(e)[:300])
        tb = traceback.extract_tb(e.__traceback__)
        for fr in tb[-3:]: print("      ", fr.filename.split('site-packages/')[-1].split('/repo/')[-1], fr.lineno, fr.line)
f = np.linspace(0, 2.5, 256, endpoint=False); d = np.linspace(0,360,36,endpoint=False)
s2 = create_parametric_spectrum(f, "pm", 0.1, 5, d, "raised_cosine", 20, 30)
s1 = s2.as_frequency_spectrum()
probe("mean_direction 1d", lambda: s1.mean_direction())
probe("mean_direction 2d", lambda: s2.mean_direction())
probe("mean_a1", lambda: s1.mean_a1())
probe("timeseries 1d", lambda: [x.shape for x in surface_timeseries("z", 2.5, 1000, s1, seed=1)])
probe("timeseries 2d", lambda: [x.shape for x in surface_timeseries("z", 2.5, 1000, s2, seed=1)])
probe("interp freq 1d", lambda: s1.interpolate_frequency(np.linspace(0.05,1,30)).hm0())
probe("interp freq 1d nearest", lambda: s1.interpolate_frequency(np.linspace(0.05,1,30), method='nearest').hm0())
probe("interp freq 2d", lambda: s2.interpolate_frequency(np.linspace(0.05,1,30)).hm0())
probe("bulk_variables", lambda: s1.bulk_variables())
probe("peak_wavenumber", lambda: s1.peak_wavenumber)
# time-batched
from ocean_science_utilities.wavespectra.operations import concatenate_spectra
def mk(i):
    return create_parametric_spectrum(f, "pm", 0.1+0.01*i, 5, d, "raised_cosine", 20, 30, time=np.datetime64('2022-01-01')+np.timedelta64(i,'h'), latitude=1.0*i, longitude=2.0*i)
sb = concatenate_spectra([mk(i) for i in range(4)], dim='time')
sb1 = sb.as_frequency_spectrum()
probe("interp time 2d", lambda: sb.interpolate({"time": np.array([np.datetime64('2022-01-01T00:30:00')])}).hm0().values)
probe("interp time 1d", lambda: sb1.interpolate({"time": np.array([np.datetime64('2022-01-01T00:30:00')])}).hm0().values)
probe("batch mean_direction", lambda: sb1.mean_direction())
probe("save/load", lambda: (sb1.save_as_netcdf('/tmp/scratch/x.nc'), __import__('ocean_science_utilities.wavespectra.spectrum',fromlist=['x']).load_spectrum_from_netcdf('/tmp/scratch/x.nc').hm0().values)[1])
# filecache
from ocean_science_utilities.filecache.cache_object import FileCache
td = tempfile.mkdtemp(dir='/tmp/scratch')
probe("FileCache()", lambda: FileCache(td, size_GB=1e-6))
# integrate
from ocean_science_utilities.tools.time_integration import integrate, integration_stencil
t = np.arange(0,20.0,1.0); sig = np.ones(20)
probe("integrate start", lambda: integrate(t, sig, 4, 1, 5.0)[:3])
probe("stencil", lambda: integration_stencil(4,1))
# interpolate_at_points
from ocean_science_utilities.interpolate.dataset import interpolate_at_points, interpolate_dataset_along_axis
lon = np.arange(0,360,30.); lat=np.arange(-60,61,30.); tt = np.array(['2022-01-01','2022-01-02','2022-01-03'],dtype='datetime64[ns]')
ds = xarray.Dataset({"v": (("time","latitude","longitude"), np.random.rand(3,5,12))}, coords={"time":tt,"latitude":lat,"longitude":lon})
pts = {"time": np.array(['2022-01-01T12:00:00'],dtype='datetime64[ns]'), "latitude": np.array([10.]), "longitude": np.array([345.])}
probe("interpolate_at_points", lambda: interpolate_at_points(ds, pts, "time", {"longitude":360.}))
probe("interp along lon", lambda: interpolate_dataset_along_axis(np.array([345., -15., 705.]), ds, "longitude")["v"].shape)
