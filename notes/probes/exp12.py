import numpy as np, xarray, traceback, warnings, pandas as pd
warnings.simplefilter("ignore")
from datetime import datetime, timezone, timedelta
def probe(name, fn):
    try:
        r = fn(); print("OK  ", name, "->", r)
    except Exception as e:
        print("FAIL", name, type(e).__name__, str(e)[:200])
        tb = traceback.extract_tb(e.__traceback__)
        for fr in tb[-2:]: print("      ", fr.filename.split('site-packages/')[-1].split('/repo/')[-1], fr.lineno, fr.line)
from ocean_science_utilities.interpolate.dataset import interpolate_dataset_along_axis, interpolate_dataset_grid
x = np.array([0., 1., 3., 4.])
ds = xarray.Dataset({"v": (("x","y"), np.array([[0.,10],[1,np.nan],[3,30],[4,40]])), "w": (("y",), np.array([5.,6.])), "wave_direction": (("x",), np.array([350., 10., 30., 50.]))}, coords={"x":x, "y":[0,1]})
r = interpolate_dataset_along_axis(np.array([-1, 0., 0.5, 0.4, 0.6, 1., 2., 4., 5.]), ds, "x")
print(r["v"].values.T, r["w"].values, r["wave_direction"].values)
r = interpolate_dataset_along_axis(np.array([0.4,0.5, 0.6, 2.5]), ds, "x", nearest_neighbour=True)
print("nearest", r["v"].values.T)
# descending
ds2 = ds.isel(x=slice(None,None,-1))
r = interpolate_dataset_along_axis(np.array([-1, 0., 0.5, 1., 2., 4., 5.]), ds2, "x")
print("desc", r["v"].values.T)
# datetime axis
t = np.array(['2022-01-01T00:00:00','2022-01-01T01:00:00','2022-01-01T03:00:00'],dtype='datetime64[ns]')
ds3 = xarray.Dataset({"v": (("time",), np.array([0.,1.,3.]))}, coords={"time":t})
probe("time np", lambda: interpolate_dataset_along_axis(np.array(['2022-01-01T02:00:00'],dtype='datetime64[ns]'), ds3, "time")["v"].values)
probe("time dt", lambda: interpolate_dataset_along_axis(datetime(2022,1,1,0,30,tzinfo=timezone.utc), ds3, "time")["v"].values)
probe("time str", lambda: interpolate_dataset_along_axis("2022-01-01T00:30:00Z", ds3, "time")["v"].values)
# periodic coordinate
dd = np.array([10., 100., 190., 280.])
ds4 = xarray.Dataset({"v": (("direction",), np.array([1.,2.,3.,4.])), "peak_direction": (("direction",), np.array([350., 20., 100., 200.]))}, coords={"direction":dd})
r = interpolate_dataset_along_axis(np.array([0., 10., 325., 685., -35., 1000.]), ds4, "direction")
print("periodic", r["v"].values, r["peak_direction"].values)
# time tools
from ocean_science_utilities.tools.time import to_datetime_utc, to_datetime64, datetime_to_iso_time_string, datetime_from_time_and_date_integers, time_from_timeint, date_from_dateint
probe("iso offset", lambda: to_datetime_utc("2022-11-09T10:20:42+05:30"))
probe("iso frac", lambda: to_datetime_utc("2022-11-09T10:20:42.123456Z"))
probe("iso frac3", lambda: to_datetime_utc("2022-11-09T10:20:42.123Z"))
probe("float", lambda: to_datetime_utc(1667989242.5))
probe("int", lambda: to_datetime_utc(1667989242))
probe("npint", lambda: to_datetime_utc(np.int64(1667989242)))
probe("npfloat", lambda: to_datetime_utc(np.float64(1667989242.25)))
probe("dt64 ms", lambda: to_datetime_utc(np.datetime64("2022-11-09T10:20:42.750")))
probe("naive", lambda: to_datetime_utc(datetime(2022,11,9,10,20,42)))
probe("aware", lambda: to_datetime_utc(datetime(2022,11,9,10,20,42,tzinfo=timezone(timedelta(hours=-7)))))
probe("mixed", lambda: to_datetime_utc(["2022-11-09T10:20:42Z", 1667989242, np.datetime64("2022-11-09T10:20:42"), datetime(2022,11,9,10,20,42)]))
probe("to64", lambda: to_datetime64(datetime(2022,11,9,10,20,42,500000,tzinfo=timezone.utc)))
probe("to64 pre1970 frac", lambda: to_datetime64(datetime(1969,12,31,23,59,59,500000,tzinfo=timezone.utc)))
probe("iso str", lambda: datetime_to_iso_time_string(datetime(2022,11,9,10,20,42,5,tzinfo=timezone.utc)))
probe("ints", lambda: datetime_from_time_and_date_integers(20221109, 102042))
probe("ints yy", lambda: datetime_from_time_and_date_integers(221109, 1020))
probe("ints hh", lambda: datetime_from_time_and_date_integers(221109, 7))
probe("ints 000030", lambda: datetime_from_time_and_date_integers(221109, 30))
probe("date 1000000", lambda: date_from_dateint(1000101))
probe("DataArray", lambda: to_datetime_utc(xarray.DataArray(np.array(['2022-01-01T00:00:00'],dtype='datetime64[ns]'))))
probe("pd.Series", lambda: to_datetime_utc(pd.Series(pd.to_datetime(['2022-01-01T00:00:00']))))
# charnock
from ocean_science_utilities.wavephysics.roughness import charnock_roughness_length_from_u10, drag_coefficient_charnock, charnock_roughness_length
probe("charnock arr", lambda: charnock_roughness_length_from_u10(np.array([0.1,5.,np.nan,80.])).values)
probe("charnock scalar", lambda: charnock_roughness_length_from_u10(10.0).values)
probe("charnock DA", lambda: charnock_roughness_length_from_u10(xarray.DataArray([3.,30.])).values)
probe("charnock visc", lambda: charnock_roughness_length_from_u10(np.array([0.1, 1., 5.,30.]), viscous_constant=0.11).values)
probe("drag", lambda: drag_coefficient_charnock(np.array([5.,10.,np.nan])).values)
