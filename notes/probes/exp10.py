import numpy as np, xarray, traceback, warnings
warnings.simplefilter("ignore")
from ocean_science_utilities.wavespectra.spectrum import create_1d_spectrum, create_2d_spectrum, FrequencySpectrum, FrequencyDirectionSpectrum
from ocean_science_utilities.wavespectra.operations import concatenate_spectra
def probe(name, fn):
    try:
        r = fn(); print("OK  ", name, "->", r if not hasattr(r,'shape') or np.size(r)<12 else np.shape(r))
    except Exception as e:
        print("FAIL", name, type(e).__name__, str(e)[:200])
        tb = traceback.extract_tb(e.__traceback__)
        for fr in tb[-2:]: print("      ", fr.filename.split('site-packages/')[-1].split('/repo/')[-1], fr.lineno, fr.line)
rng = np.random.default_rng(0)
f = np.sort(rng.uniform(0.02,1,12)); nf=len(f)
d = (np.linspace(0,360,8,endpoint=False)+13.0)%360
# dims ()
def mk1(dims, shape, **kw):
    e = rng.uniform(0,1,shape+(nf,))
    a1 = rng.uniform(-.5,.5,shape+(nf,)); b1=rng.uniform(-.5,.5,shape+(nf,)); a2=rng.uniform(-.5,.5,shape+(nf,)); b2=rng.uniform(-.5,.5,shape+(nf,))
    return create_1d_spectrum(f, e, a1=a1,b1=b1,a2=a2,b2=b2, dims=dims, **kw)
t0 = np.datetime64('2022-01-01T00:00:00')
s0 = mk1(("frequency",), (), time=t0, latitude=1., longitude=2., depth=30.)
print(s0.dataset)
for nm, s in [("()", s0)]:
    probe(nm+" m0", lambda: s.m0().values)
    probe(nm+" hm0 band", lambda: s.hm0(0.1,0.5).values)
    probe(nm+" peak_index", lambda: s.peak_index().values)
    probe(nm+" peak_frequency", lambda: s.peak_frequency().values)
    probe(nm+" peak_direction", lambda: s.peak_direction().values)
    probe(nm+" wavenumber", lambda: s.wavenumber.values.shape)
    probe(nm+" group_velocity", lambda: s.group_velocity.values.shape)
    probe(nm+" peak_wavenumber", lambda: s.peak_wavenumber.values)
    probe(nm+" flatten", lambda: s.flatten().dataset.sizes)
    probe(nm+" len", lambda: (len(s), s.number_of_spectra))
    probe(nm+" 2d", lambda: s.as_frequency_direction_spectrum(12, method='mem').dataset.sizes)
times = t0 + np.arange(3)*np.timedelta64(1,'h')
s1 = mk1(("time","frequency"), (3,), time=times, latitude=[1.,2,3], longitude=[2.,3,4], depth=[10.,np.nan,np.inf])
print(s1.dataset)
for nm, s in [("(t)", s1)]:
    probe(nm+" m0", lambda: s.m0().values)
    probe(nm+" peak_index", lambda: s.peak_index().values)
    probe(nm+" peak_frequency", lambda: s.peak_frequency().values)
    probe(nm+" peak_period", lambda: s.peak_period().values)
    probe(nm+" peak_direction", lambda: s.peak_direction().values)
    probe(nm+" wavenumber", lambda: s.wavenumber.values.shape)
    probe(nm+" peak_wavenumber", lambda: s.peak_wavenumber.values)
    probe(nm+" depth", lambda: s.depth.values)
    probe(nm+" getitem", lambda: s[1,:].dataset.sizes)
    probe(nm+" flatten", lambda: s.flatten().dataset.sizes)
# (time, latitude) layout
lat = np.array([10.,20.])
e = rng.uniform(0,1,(3,2,nf))
ds = xarray.Dataset({"variance_density": (("time","latitude","frequency"), e),
    "a1": (("time","latitude","frequency"), rng.uniform(-.5,.5,(3,2,nf))), "b1": (("time","latitude","frequency"), rng.uniform(-.5,.5,(3,2,nf))),
    "a2": (("time","latitude","frequency"), rng.uniform(-.5,.5,(3,2,nf))), "b2": (("time","latitude","frequency"), rng.uniform(-.5,.5,(3,2,nf))),
    "depth": (("time","latitude"), rng.uniform(5,100,(3,2))), "longitude": (("time","latitude"), rng.uniform(5,100,(3,2)))},
    coords={"time":times,"latitude":lat,"frequency":f})
s2 = FrequencySpectrum(ds)
for nm, s in [("(t,lat)", s2)]:
    probe(nm+" m0", lambda: s.m0().values)
    probe(nm+" peak_index", lambda: s.peak_index().values)
    probe(nm+" peak_frequency", lambda: s.peak_frequency().values)
    probe(nm+" peak_direction", lambda: s.peak_direction().values)
    probe(nm+" wavenumber", lambda: s.wavenumber.values.shape)
    probe(nm+" peak_wavenumber", lambda: s.peak_wavenumber.values.shape)
    probe(nm+" flatten", lambda: s.flatten().dataset.sizes)
    probe(nm+" getitem", lambda: s[1,0,:].dataset)
    probe(nm+" 2d", lambda: s.as_frequency_direction_spectrum(12, method='mem').dataset.sizes)
# 2D
E = rng.uniform(0,1,(3,nf,len(d)))
s3 = create_2d_spectrum(f, d, E, times, [1.,2,3],[2.,3,4], depth=[10.,20,np.inf])
probe("2d e", lambda: s3.e.values.shape)
probe("2d dstep", lambda: s3.direction_step.values)
probe("2d a1", lambda: float(np.abs(s3.a1).max()))
probe("2d as1d", lambda: s3.as_frequency_spectrum().dataset.sizes)
probe("2d concat", lambda: concatenate_spectra([s3[i,:,:] for i in range(3)], dim="time").dataset.sizes)
probe("2d concat none", lambda: concatenate_spectra([s3, s3], dim=None).dataset.sizes)
probe("2d getitem", lambda: s3[1,:,:].dataset.sizes)
probe("2d peak_direction", lambda: s3.peak_direction().values)
probe("2d sum", lambda: s3.sum("time").dataset.sizes)
probe("2d bandpass", lambda: s3.bandpass(0.1,0.5).dataset.sizes)
probe("2d multiply", lambda: s3.multiply(np.ones(nf), ["frequency"]).dataset.sizes)
probe("2d sel", lambda: s3.sel({"time":times[1]}).dataset.sizes)
