import time, numpy as np, xarray, warnings
from ocean_science_utilities.wavespectra.parametric import create_parametric_frequency_direction_spectrum
from ocean_science_utilities.wavespectra.operations import concatenate_spectra
from ocean_science_utilities.wavephysics.balance.factory import create_balance
from ocean_science_utilities.wavephysics.windestimate import estimate_u10_from_source_terms, estimate_u10_from_spectrum
f = np.linspace(0.03, 1.0, 40)
d = np.linspace(0,360,24,endpoint=False)
specs=[]
for i,(hs,fp,md) in enumerate([(2.0,0.12,30.),(3.,0.1,200.)]):
    s = create_parametric_frequency_direction_spectrum(f, fp, hs, direction_degrees=d, mean_direction_degrees=md, width_degrees=30, time=np.datetime64('2022-01-01T00:00:00')+np.timedelta64(i,'h'), latitude=0., longitude=0.)
    specs.append(s)
spec = concatenate_spectra(specs, dim='time')
bal = create_balance('st4','st4')
print(estimate_u10_from_spectrum(spec))
t0=time.time()
r = estimate_u10_from_source_terms(spec, bal)
print(r, time.time()-t0)
# scan balance
for U in [2,5,8,10,12,15,20,25,30,40]:
    u10 = xarray.DataArray([float(U)]*2, dims='time', coords={'time':spec.dataset.time})
    wd = xarray.DataArray(r.direction.values, dims='time', coords={'time':spec.dataset.time})
    print(U, (bal.generation.bulk_rate(spec,u10,wd)+bal.dissipation.bulk_rate(spec)).values)
# pure python twin
from ocean_science_utilities.wavephysics.balance import wind_inversion as wi
