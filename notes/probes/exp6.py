import numpy as np, numba
from ocean_science_utilities.wavespectra.estimators.mem2 import solve_cholesky

@numba.njit
def t1(m, r):
    try:
        x = solve_cholesky(m, r)
    except Exception:
        x = np.linalg.lstsq(m, r, rcond=1e-6)[0]
    return x

@numba.njit
def t2(m, r):
    try:
        x = solve_cholesky(m, -r)
    except Exception:
        x = np.linalg.lstsq(m, -r, rcond=1e-6)[0]
    return x
m = np.array([[1.,2,0,0],[2,1,0,0],[0,0,1,0],[0,0,0,1.]])
r = np.ones(4)
for f in (t1,t2):
    try:
        print(f.__name__, f(m,r))
    except Exception as e:
        print(f.__name__, "ERR", type(e), e)
