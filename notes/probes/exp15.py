import numpy as np, xarray, warnings
warnings.simplefilter("ignore")
from ocean_science_utilities.wavespectra.parametric import create_parametric_frequency_direction_spectrum
from ocean_science_utilities.wavespectra.spectrum import create_2d_spectrum
from ocean_science_utilities.wavephysics.balance.factory import create_balance
f = np.linspace(0.03, 1.0, 30)
for N in (24,36):
    d = np.linspace(0,360,N,endpoint=False)
    s = create_parametric_frequency_direction_spectrum(f, 0.15, 4.0, direction_degrees=d, mean_direction_degrees=33., width_degrees=35)
    E = s.variance_density.values
    t = np.array(['2022-01-01T00:00:00'],dtype='datetime64[ns]')
    bal = create_balance('st4','st4')
    worst=0
    base = None
    for k in range(N):
        Ek = np.roll(E, k, axis=-1)[None,:,:]
        sk = create_2d_spectrum(f, d, Ek, t, [0.],[0.], depth=[np.inf])
        r = bal.dissipation.rate(sk).values[0]
        r0 = np.roll(r, -k, axis=-1)
        if base is None: base=r0
        worst = max(worst, np.abs(r0-base).max()/np.abs(base).max())
    print(N, "max rel rotation mismatch", worst)
