import numpy as np, warnings
warnings.simplefilter("ignore")
from scipy.special import ive
from ocean_science_utilities.wavespectra.estimators.estimate import estimate_directional_distribution
def vm(mu,kappa):
    r1=ive(1,kappa)/ive(0,kappa); r2=ive(2,kappa)/ive(0,kappa)
    return np.array([r1*np.cos(mu), r1*np.sin(mu), r2*np.cos(2*mu), r2*np.sin(2*mu)]), np.degrees(np.sqrt(2*(1-r1)))
rng=np.random.default_rng(0)
for N in (24,36,72,144):
    d=np.linspace(0,360,N,endpoint=False); th=np.deg2rad(d); step=360/N
    for ratio in (1.5, 2.0, 3.0, 5.0):
        worst={"mem":0,"newton":0,"scipy":0}
        for trial in range(40):
            # find kappa s.t. spread = ratio*step
            lo,hi=1e-3,1e5
            for _ in range(80):
                mid=np.sqrt(lo*hi); 
                if vm(0,mid)[1] > ratio*step: lo=mid
                else: hi=mid
            m,sp = vm(rng.uniform(0,2*np.pi), mid)
            a=[np.array([x]) for x in m]
            for name,kw in (("mem",dict(method="mem")),("newton",dict(method="mem2",solution_method="newton")),("scipy",dict(method="mem2",solution_method="scipy"))):
                try:
                    D=estimate_directional_distribution(*a,d,**kw)[0]
                except Exception as e:
                    worst[name]=np.inf; continue
                mm=np.array([(D*np.cos(th)).sum()*step,(D*np.sin(th)).sum()*step,(D*np.cos(2*th)).sum()*step,(D*np.sin(2*th)).sum()*step])
                worst[name]=max(worst[name], np.linalg.norm(mm-m))
        print(N, ratio, {k: float(f"{v:.2e}") for k,v in worst.items()})
