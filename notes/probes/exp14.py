import numpy as np, warnings
warnings.simplefilter("ignore")
from ocean_science_utilities.wavetheory.lineardispersion import inverse_intrinsic_dispersion_relation as kfun, intrinsic_dispersion_relation as wfun, intrinsic_group_velocity as cg
g=9.81
W = np.exp(np.linspace(np.log(3e-3), np.log(50), 400)); D = np.exp(np.linspace(np.log(1e-2), np.log(1e4), 300))
WW, DD = np.meshgrid(W, D, indexing='ij')
k = kfun(WW.ravel(), DD.ravel()).reshape(WW.shape)
res = np.abs(wfun(k.ravel(), DD.ravel()).reshape(WW.shape) - WW)/WW
print("array call: max rel residual", res.max(), "min k", k.min(), "nan", np.isnan(k).sum())
# per-element calls (scalar)
mx=0
for w in W[::20]:
    for d in D[::15]:
        kk = kfun(float(w), float(d))
        mx = max(mx, abs(wfun(kk, float(d))[0]-w)/w)
print("scalar calls max resid", mx)
kinf = kfun(W, np.inf*np.ones_like(W)); print("inf depth", np.abs(kinf - W**2/g).max())
# monotonic in w
dk = np.diff(k, axis=0); print("nonmonotone in w (adjacent 2.4% steps):", (dk<=0).sum())
dd = np.diff(k, axis=1); print("increasing in d count:", (dd>0).sum(), "max rel increase", (dd/k[:,:-1]).max())
# group velocity vs numerical derivative
kd = k*DD
n = cg(k.ravel(), DD.ravel()).reshape(k.shape)/(wfun(k.ravel(), DD.ravel()).reshape(k.shape)/k)
print("n range", n.min(), n.max())
h=1e-6
dwdk = (wfun((k*(1+h)).ravel(), DD.ravel()) - wfun((k*(1-h)).ravel(), DD.ravel())).reshape(k.shape)/(2*h*k)
rel = np.abs(cg(k.ravel(), DD.ravel()).reshape(k.shape)-dwdk)/dwdk
print("cg rel err max", rel.max())
