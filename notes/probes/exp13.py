import numpy as np, xarray, traceback, warnings
warnings.simplefilter("ignore")
from ocean_science_utilities.wavespectra.spectrum import create_1d_spectrum, create_2d_spectrum
from ocean_science_utilities.wavephysics.windestimate import estimate_u10_from_spectrum, friction_velocity
def probe(name, fn):
    try:
        r = fn(); print("OK  ", name, "->", r)
    except Exception as e:
        print("FAIL", name, type(e).__name__, str(e)[:200])
        tb = traceback.extract_tb(e.__traceback__)
        for fr in tb[-2:]: print("      ", fr.filename.split('site-packages/')[-1].split('/repo/')[-1], fr.lineno, fr.line)
f = np.linspace(0.03, 1.0, 60); nf=len(f)
c = 2e-4
def spec(shape, dims, **kw):
    e = np.where(f>0.2, c*f**-4, c*0.2**-4*(f/0.2)**6) * np.ones(shape+(nf,))
    th = np.deg2rad(200.)
    a1 = 0.8*np.cos(th)*np.ones(shape+(nf,)); b1=0.8*np.sin(th)*np.ones(shape+(nf,))
    z = np.zeros(shape+(nf,))
    return create_1d_spectrum(f, e, a1=a1,b1=b1,a2=z,b2=z, dims=dims, **kw)
t0 = np.datetime64('2022-01-01T00:00:00')
times = t0 + np.arange(3)*np.timedelta64(1,'h')
s = spec((3,), ("time","frequency"), time=times, latitude=[1.,2,3], longitude=[1.,2,3], depth=[np.inf]*3)
expected_ustar = 8*np.pi**3*c/9.81/2.5/0.012/4
print("expected u*", expected_ustar)
for m in ("peak","mean"):
    probe(m, lambda: {k: v.values for k,v in estimate_u10_from_spectrum(s, m).items()})
    probe(m+" north", lambda: estimate_u10_from_spectrum(s, m, direction_convention="coming_from_clockwise_north")["direction"].values)
s0 = spec((), ("frequency",), time=t0, latitude=1., longitude=2.)
for m in ("peak","mean"):
    probe(m+" ()", lambda: {k: v.values for k,v in estimate_u10_from_spectrum(s0, m).items()})
