import numpy as np
for N in (16,24,36,72):
    d = np.linspace(0,360,N,endpoint=False); rd = d*np.pi/180
    w = 80*np.pi/180
    inc = {}
    for i in range(N):
        for j in range(N):
            ma = (rd[j]-rd[i]+np.pi)%(2*np.pi)-np.pi
            sep = (j-i)%N
            inc.setdefault(sep,set()).add(bool(abs(ma)>w))
    print(N, {k:v for k,v in inc.items() if len(v)>1})
