"""One-off calibration on the unchanged tree: worst four-moment error of MEM / MEM2 and the
rotation mismatch, by N and by (min lobe spread / bin width) bucket. Run with /venv/bin/python."""
import sys, math, json
sys.path.insert(0, "/verif")
from vk import boot; boot.boot()
import numpy as np
from vk.gen import moments as GM
from ocean_science_utilities.wavespectra.estimators.estimate import estimate_directional_distribution as est
rng = np.random.default_rng(int(sys.argv[1]) if len(sys.argv) > 1 else 0)
BUCKETS = [1.5, 2.0, 3.0, 5.0, 1e9]
res = {}
for N in (24, 36, 72, 144):
    step = 360.0 / N
    d = np.arange(N) * step
    th = np.radians(d)
    for trial in range(400):
        nl = 1 if rng.uniform() < 0.5 else 2
        lobes = []; minr = 1e9
        for _ in range(nl):
            ratio = math.exp(rng.uniform(math.log(1.5), math.log(75.0 / step))) if 75.0 / step > 1.5 else 1.5
            spread = ratio * step
            minr = min(minr, ratio)
            lobes.append((rng.uniform(0.2, 1), rng.uniform(-math.pi, math.pi), GM.kappa_for_spread(spread)))
        bg = rng.choice([0, 0, 0.05, 0.3])
        m = np.array(GM.mixture_moments(lobes, bg))
        b = next(i for i, x in enumerate(BUCKETS) if minr < x) if minr >= 1.5 else 0
        b = max(0, [i for i, x in enumerate(BUCKETS) if minr >= x][-1]) if minr >= 1.5 else 0
        a = [np.array([x]) for x in m]
        for name, kw in (("mem", dict(method="mem")), ("newton", dict(method="mem2", solution_method="newton")),
                         ("scipy", dict(method="mem2", solution_method="scipy"))):
            D = est(*a, d, **kw)[0]
            mm = np.array([(D * np.cos(th)).sum() * step, (D * np.sin(th)).sum() * step,
                           (D * np.cos(2 * th)).sum() * step, (D * np.sin(2 * th)).sum() * step])
            err = float(np.linalg.norm(mm - m))
            key = f"{name}|{N}|{BUCKETS[b]}"
            res[key] = max(res.get(key, 0), err)
            # rotation mismatch by k bins
            k = int(rng.integers(1, N))
            mr = GM.rotate(list(m), math.radians(k * step))
            Dr = est(*[np.array([x]) for x in mr], d, **kw)[0]
            key = f"rot_{name}|{N}"
            res[key] = max(res.get(key, 0), float(np.abs(Dr - np.roll(D, k)).max() / D.max()))
for k in sorted(res): print(k, f"{res[k]:.3e}")
